//! Parameter and value grids for the value properties.

use crate::model::{ref_len, Code};
use crate::util::Rng;
use std::collections::BTreeSet;

/// Golomb moduli / minimal-binary bounds: 1..=64, every 2^i-1, 2^i, 2^i+1, 2^64-1, seeded extras
pub fn moduli(seed: u64, extras: usize) -> Vec<u64> {
    let mut s = BTreeSet::new();
    for b in 1..=64u64 {
        s.insert(b);
    }
    for i in 6..64u32 {
        let p = 1u64 << i;
        s.insert(p - 1);
        s.insert(p);
        s.insert(p + 1);
    }
    s.insert(u64::MAX);
    s.insert(u64::MAX - 1);
    let mut r = Rng::new(seed ^ 0x601);
    for _ in 0..extras {
        let x = r.next() >> (r.next() % 60);
        if x > 0 {
            s.insert(x);
        }
    }
    s.into_iter().collect()
}

/// "core" codes get the dense value grid; all codes get the boundary grid.
pub fn core_codes() -> Vec<Code> {
    let mut v = vec![Code::Unary, Code::Gamma, Code::Delta, Code::Omega, Code::VByteBe, Code::VByteLe];
    for k in 1..=10 {
        v.push(Code::Zeta(k));
    }
    for k in 0..=10 {
        v.push(Code::Pi(k));
        v.push(Code::Rice(k));
        v.push(Code::ExpGolomb(k));
    }
    for b in 1..=10 {
        v.push(Code::Golomb(b));
    }
    for u in [1u64, 2, 3, 5, 7, 8, 9, 13] {
        v.push(Code::MinBin(u));
    }
    v
}

pub fn all_codes(seed: u64) -> Vec<Code> {
    let mut v = vec![Code::Unary, Code::Gamma, Code::Delta, Code::Omega, Code::VByteBe, Code::VByteLe];
    for k in 1..=63 {
        v.push(Code::Zeta(k));
    }
    for k in 0..=63 {
        v.push(Code::Pi(k));
        v.push(Code::Rice(k));
        v.push(Code::ExpGolomb(k));
    }
    for b in moduli(seed, 8) {
        v.push(Code::Golomb(b));
        v.push(Code::MinBin(b));
    }
    v
}

pub const MAX_CODEWORD_BITS: u128 = 4096;

pub fn in_domain(code: Code, v: u64) -> bool {
    v <= code.max_value() && ref_len(code, v) <= MAX_CODEWORD_BITS
}

/// boundary values: 2^i + {-2..=2}, domain maxima, code-specific step points, seeded extras
pub fn boundary_values(code: Code, seed: u64, extras: usize) -> BTreeSet<u64> {
    boundary_values_raw(code, seed, extras).into_iter().filter(|&v| in_domain(code, v)).collect()
}

/// same, without the codeword-length restriction (for pure length-function checks)
pub fn boundary_values_raw(code: Code, seed: u64, extras: usize) -> BTreeSet<u64> {
    let mut s = BTreeSet::new();
    for i in 0..64u32 {
        let p = 1u64 << i;
        for d in -2i64..=2 {
            s.insert(p.wrapping_add(d as u64));
        }
    }
    for d in 0..4u64 {
        s.insert(u64::MAX - d);
        s.insert(d);
    }
    match code {
        Code::VByteBe | Code::VByteLe => {
            let mut off: u128 = 0;
            for l in 1..=9u32 {
                off += 1u128 << (7 * l);
                for d in -2i64..=2 {
                    s.insert((off as u64).wrapping_add(d as u64));
                }
            }
            // every 7-bit group of every codeword length on its own and in pairs with different
            // patterns (a group taken from the wrong shift is invisible when all middle groups are equal,
            // as they are around thresholds and powers of two)
            let mut t: u128 = 0; // smallest value with nbytes bytes
            for nbytes in 1..=10u32 {
                for g in 0..nbytes {
                    for pat in [1u128, 0x2A, 0x55, 0x7F] {
                        let v = t + (pat << (7 * g));
                        if v <= u64::MAX as u128 {
                            s.insert(v as u64);
                        }
                        for g2 in (g + 1)..nbytes {
                            let v2 = t + (pat << (7 * g)) + ((pat ^ 0x7F | 1) << (7 * g2));
                            if v2 <= u64::MAX as u128 {
                                s.insert(v2 as u64);
                            }
                        }
                    }
                }
                t += 1u128 << (7 * nbytes);
            }
            for v in [0xAAAA_AAAA_AAAA_AAAAu64, 0x5555_5555_5555_5555, 0x0123_4567_89AB_CDEF, 0xFEDC_BA98_7654_3210, 0x8102_0408_2020_4080] {
                for sh in [0u32, 8, 16, 24, 32, 40, 48, 56] {
                    s.insert(v >> sh);
                }
            }
        }
        Code::Golomb(b) | Code::MinBin(b) => {
            let sbits = if b == 1 { 0 } else { 64 - (b - 1).leading_zeros() };
            let short = ((1u128 << sbits) - b as u128) as u64;
            // multiples of the modulus around every power of two (remainder boundary x magnitude boundary)
            for i in 1..64u32 {
                let m = ((1u64 << i) / b) * b;
                for x in [m.wrapping_sub(1), m, m.wrapping_add(1), m.wrapping_add(b - 1), m.wrapping_add(b)] {
                    s.insert(x);
                }
            }
            let rs = [0, 1, short.wrapping_sub(1), short, short.wrapping_add(1), b - 1, b / 2];
            for q in 0..3u64 {
                for r in rs {
                    if r < b {
                        if let Some(x) = q.checked_mul(b).and_then(|x| x.checked_add(r)) {
                            s.insert(x);
                        }
                    }
                }
            }
        }
        Code::Zeta(k) => {
            // interval starts 2^(hk) - 1 and the short/long switch inside each interval
            let mut h = 0u32;
            while (h * k) < 64 {
                let lo = 1u128 << (h * k);
                let hi = if (h + 1) * k >= 64 { 1u128 << 64 } else { 1u128 << ((h + 1) * k) };
                let bound = hi - lo;
                let sb = 128 - (bound - 1).leading_zeros();
                let short = (1u128 << sb) - bound;
                for d in -1i128..=1 {
                    let n = lo as i128 + short as i128 + d - 1;
                    if n >= 0 && n < u64::MAX as i128 {
                        s.insert(n as u64);
                    }
                }
                h += 1;
            }
        }
        Code::Rice(k) | Code::ExpGolomb(k) | Code::Pi(k) => {
            for q in 0..4u64 {
                if k < 62 {
                    s.insert(q << k);
                    s.insert((q << k).wrapping_sub(1));
                    s.insert((q << k) + 1);
                }
            }
        }
        _ => {}
    }
    let mut r = Rng::new(seed ^ crate::util::fnv(code.name().as_bytes()));
    for _ in 0..extras {
        let x = r.next() >> (r.next() % 64);
        s.insert(x);
    }
    s.into_iter().filter(|&v| v <= code.max_value()).collect()
}

pub fn values(code: Code, dense_below: u64, seed: u64, extras: usize) -> Vec<u64> {
    let mut s = boundary_values(code, seed, extras);
    for v in 0..dense_below {
        if in_domain(code, v) {
            s.insert(v);
        }
    }
    s.into_iter().collect()
}
