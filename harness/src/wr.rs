//! Writer systems: operations, a recording backend, generic application of an
//! operation to any library writer, and replays of a history on every real backend.

use crate::model::{encode_into, Bits, Code, End};
use crate::rd::{bytes_from_words, words_from_bytes};
use common_traits::CastableInto;
use dsi_bitstream::prelude::*;
use serde::{Deserialize, Serialize};
use std::cell::RefCell;
use std::convert::Infallible;
use std::fmt::Debug;
use std::panic::{catch_unwind, AssertUnwindSafe};
use std::rc::Rc;

#[derive(Clone, Debug, PartialEq, Eq, Hash, PartialOrd, Ord, Serialize, Deserialize)]
pub enum WOp {
    WriteBits { v: u64, n: u8 },
    Unary(u64),
    Flush,
    /// parameterless / default trait method of the code
    Code { code: Code, v: u64 },
    GammaP { t: bool, v: u64 },
    DeltaP { dt: bool, gt: bool, v: u64 },
    Zeta3P { t: bool, v: u64 },
    ZetaP { t: bool, k: u32, v: u64 },
    /// std::io::Write::write(bytes)
    IoWrite(Vec<u8>),
    /// std::io::Write::flush
    IoFlush,
    /// copy n bits from a fresh source reader (kind `src`) over the fixed source image,
    /// advanced by k bits and optionally peeked; `from`: dst.copy_from(src) else src.copy_to(dst)
    CopyIn { src: u8, k: u16, peek: bool, n: u16, from: bool },
    /// write through a dispatcher (see disp::WKINDS)
    Disp { kind: u8, code: Code, v: u64 },
}

impl WOp {
    pub fn class(&self) -> &'static str {
        match self {
            WOp::WriteBits { .. } => "write_bits",
            WOp::Unary(_) => "write_unary",
            WOp::Flush => "flush",
            WOp::Code { .. } => "code_write",
            WOp::GammaP { .. } | WOp::DeltaP { .. } | WOp::Zeta3P { .. } | WOp::ZetaP { .. } => "code_write_param",
            WOp::IoWrite(_) => "io_write",
            WOp::IoFlush => "io_flush",
            WOp::CopyIn { from: false, .. } => "copy_to",
            WOp::CopyIn { from: true, .. } => "copy_from",
            WOp::Disp { .. } => "dispatch_write",
        }
    }
}

#[derive(Clone, Debug, PartialEq, Eq, Hash, Serialize, Deserialize)]
pub enum WObs {
    Ret(usize),
    Unit,
    Err(String),
    Panic(String),
    Unsupported,
}

/// The fixed source image used by CopyIn operations (256 bits).
pub fn copy_src_image() -> Vec<u8> {
    let mut r = crate::util::Rng::new(0xC0FFEE);
    let mut v: Vec<u8> = (0..32).map(|_| r.next() as u8).collect();
    v[0] = 0xB7;
    v
}
pub const SRC_KINDS: [&str; 5] = ["buf8", "buf16", "buf32", "buf64", "unbuf"];

/// Recording backend: remembers every delivered word; Debug prints nothing so the
/// writer's Debug string is exactly (buffer, space_left).
pub struct Rec<W> {
    pub log: Rc<RefCell<Vec<u8>>>,
    pub flushes: Rc<RefCell<usize>>,
    _w: std::marker::PhantomData<W>,
}
impl<W> Rec<W> {
    pub fn new() -> Self {
        Rec { log: Rc::new(RefCell::new(Vec::new())), flushes: Rc::new(RefCell::new(0)), _w: std::marker::PhantomData }
    }
}
impl<W> Debug for Rec<W> {
    fn fmt(&self, f: &mut std::fmt::Formatter<'_>) -> std::fmt::Result {
        f.write_str("Rec")
    }
}
impl<W: Word> WordWrite for Rec<W>
where
    W::Bytes: AsRef<[u8]>,
{
    type Error = Infallible;
    type Word = W;
    fn write_word(&mut self, word: W) -> Result<(), Infallible> {
        use common_traits::ToBytes;
        self.log.borrow_mut().extend_from_slice(<W as ToBytes>::to_ne_bytes(word).as_ref());
        Ok(())
    }
    fn flush(&mut self) -> Result<(), Infallible> {
        *self.flushes.borrow_mut() += 1;
        Ok(())
    }
}

/// Optional std::io::Write view (only BufBitWriter has one).
pub trait MaybeIoWrite {
    fn io_write(&mut self, _b: &[u8]) -> Option<std::io::Result<usize>> {
        None
    }
    fn io_flush(&mut self) -> Option<std::io::Result<()>> {
        None
    }
}
impl<WW: WordWrite> MaybeIoWrite for BufBitWriter<BE, WW>
where
    u64: CastableInto<WW::Word>,
{
    fn io_write(&mut self, b: &[u8]) -> Option<std::io::Result<usize>> {
        Some(std::io::Write::write(self, b))
    }
    fn io_flush(&mut self) -> Option<std::io::Result<()>> {
        Some(std::io::Write::flush(self))
    }
}
impl<WW: WordWrite> MaybeIoWrite for BufBitWriter<LE, WW>
where
    u64: CastableInto<WW::Word>,
{
    fn io_write(&mut self, b: &[u8]) -> Option<std::io::Result<usize>> {
        Some(std::io::Write::write(self, b))
    }
    fn io_flush(&mut self) -> Option<std::io::Result<()>> {
        Some(std::io::Write::flush(self))
    }
}
impl<E: Endianness, BW: BitWrite<E>, const PRINT: bool> MaybeIoWrite for CountBitWriter<E, BW, PRINT> {}
impl<E: Endianness, BW> MaybeIoWrite for DbgBitWriter<E, BW> {}

/// Source readers for CopyIn, built at concrete types.
pub trait CopyInSrc<E: Endianness>: BitWrite<E> + Sized {
    fn copy_in(&mut self, src: u8, k: u16, peek: bool, n: u16, from: bool) -> Result<(), String>;
}

macro_rules! impl_copy_in {
    ($E:ty) => {
        impl<D: BitWrite<$E>> CopyInSrc<$E> for D {
            fn copy_in(&mut self, src: u8, k: u16, peek: bool, n: u16, from: bool) -> Result<(), String> {
                let img = copy_src_image();
                macro_rules! go {
                    ($R:ty, $W:ty, $pk:expr) => {{
                        let words: Vec<$W> = words_from_bytes::<$W>(&img);
                        let mut r = <$R>::new(MemWordReader::<$W, Vec<$W>>::new(words));
                        r.skip_bits(k as usize).map_err(|e| format!("{e}"))?;
                        if peek {
                            let _ = r.peek_bits($pk).map_err(|e| format!("{e}"))?;
                        }
                        if from {
                            self.copy_from(&mut r, n as u64).map_err(|e| format!("{e}"))
                        } else {
                            r.copy_to(self, n as u64).map_err(|e| format!("{e}"))
                        }
                    }};
                }
                match src {
                    0 => go!(BufBitReader<$E, MemWordReader<u8, Vec<u8>>>, u8, 8),
                    1 => go!(BufBitReader<$E, MemWordReader<u16, Vec<u16>>>, u16, 16),
                    2 => go!(BufBitReader<$E, MemWordReader<u32, Vec<u32>>>, u32, 32),
                    3 => go!(BufBitReader<$E, MemWordReader<u64, Vec<u64>>>, u64, 64),
                    4 => go!(BitReader<$E, MemWordReader<u64, Vec<u64>>>, u64, 32),
                    _ => Err("bad src".into()),
                }
            }
        }
    };
}
impl_copy_in!(BE);
impl_copy_in!(LE);

pub trait WrAll<E: Endianness>:
    CodesWrite<E> + GammaWriteParam<E> + DeltaWriteParam<E> + ZetaWriteParam<E> + MaybeIoWrite + CopyInSrc<E>
{
}
impl<E: Endianness, T> WrAll<E> for T where T: CodesWrite<E> + GammaWriteParam<E> + DeltaWriteParam<E> + ZetaWriteParam<E> + MaybeIoWrite + CopyInSrc<E> {}

fn raw_apply<E: Endianness, W: WrAll<E>>(w: &mut W, op: &WOp) -> WObs {
    fn r<Er: std::fmt::Display>(x: Result<usize, Er>) -> WObs {
        match x {
            Ok(n) => WObs::Ret(n),
            Err(e) => WObs::Err(format!("{e}")),
        }
    }
    match op {
        WOp::WriteBits { v, n } => r(w.write_bits(*v, *n as usize)),
        WOp::Unary(x) => r(w.write_unary(*x)),
        WOp::Flush => r(BitWrite::flush(w)),
        WOp::Code { code, v } => match crate::disp::direct_write::<E, W>(w, *code, *v) {
            Ok(n) => WObs::Ret(n),
            Err(e) => WObs::Err(e),
        },
        WOp::GammaP { t: false, v } => r(w.write_gamma_param::<false>(*v)),
        WOp::GammaP { t: true, v } => r(w.write_gamma_param::<true>(*v)),
        WOp::DeltaP { dt: false, gt: false, v } => r(w.write_delta_param::<false, false>(*v)),
        WOp::DeltaP { dt: false, gt: true, v } => r(w.write_delta_param::<false, true>(*v)),
        WOp::DeltaP { dt: true, gt: false, v } => r(w.write_delta_param::<true, false>(*v)),
        WOp::DeltaP { dt: true, gt: true, v } => r(w.write_delta_param::<true, true>(*v)),
        WOp::Zeta3P { t: false, v } => r(w.write_zeta3_param::<false>(*v)),
        WOp::Zeta3P { t: true, v } => r(w.write_zeta3_param::<true>(*v)),
        WOp::ZetaP { t: false, k, v } => r(w.write_zeta_param::<false>(*v, *k as usize)),
        WOp::ZetaP { t: true, k, v } => r(w.write_zeta_param::<true>(*v, *k as usize)),
        WOp::IoWrite(b) => match w.io_write(crate::util::AlignedBytes::from(b).as_slice()) {
            None => WObs::Unsupported,
            Some(Ok(n)) => WObs::Ret(n),
            Some(Err(e)) => WObs::Err(format!("{e}")),
        },
        WOp::IoFlush => match w.io_flush() {
            None => WObs::Unsupported,
            Some(Ok(())) => WObs::Unit,
            Some(Err(e)) => WObs::Err(format!("{e}")),
        },
        WOp::CopyIn { src, k, peek, n, from } => match w.copy_in(*src, *k, *peek, *n, *from) {
            Ok(()) => WObs::Unit,
            Err(e) => WObs::Err(e),
        },
        WOp::Disp { kind, code, v } => match crate::disp::disp_write::<E, W>(w, *kind, *code, *v) {
            None => WObs::Unsupported,
            Some(Ok(n)) => WObs::Ret(n),
            Some(Err(e)) => WObs::Err(e),
        },
    }
}

pub fn apply_wop<E: Endianness, W: WrAll<E>>(w: &mut W, op: &WOp) -> WObs {
    crate::watchdog::tick();
    match catch_unwind(AssertUnwindSafe(|| raw_apply::<E, W>(w, op))) {
        Ok(o) => o,
        Err(p) => WObs::Panic(crate::util::panic_msg(&p)),
    }
}

/// Bits an operation appends to the stream, and the value it must return.
/// `wbits` = backend word size (flush pads to it). None = operation not defined by the model.
pub fn model_apply(bits: &mut Bits, op: &WOp, e: End, wbits: usize) -> Option<WObs> {
    Some(match op {
        WOp::WriteBits { v, n } => {
            let n = *n as usize;
            let m = if n == 64 { *v } else { *v & ((1u64 << n) - 1) };
            bits.push_field(m as u128, n, e);
            WObs::Ret(n)
        }
        WOp::Unary(x) => {
            bits.push_unary(*x);
            WObs::Ret(*x as usize + 1)
        }
        WOp::Flush => {
            let pending = bits.len() % wbits;
            bits.pad_to(wbits);
            WObs::Ret(pending)
        }
        WOp::Code { code, v } | WOp::Disp { code, v, .. } => {
            let before = bits.len();
            encode_into(bits, *code, *v, e, true);
            WObs::Ret(bits.len() - before)
        }
        WOp::GammaP { v, .. } => {
            let before = bits.len();
            encode_into(bits, Code::Gamma, *v, e, true);
            WObs::Ret(bits.len() - before)
        }
        WOp::DeltaP { v, .. } => {
            let before = bits.len();
            encode_into(bits, Code::Delta, *v, e, true);
            WObs::Ret(bits.len() - before)
        }
        WOp::Zeta3P { v, .. } => {
            let before = bits.len();
            encode_into(bits, Code::Zeta(3), *v, e, true);
            WObs::Ret(bits.len() - before)
        }
        WOp::ZetaP { k, v, .. } => {
            let before = bits.len();
            encode_into(bits, Code::Zeta(*k), *v, e, true);
            WObs::Ret(bits.len() - before)
        }
        WOp::IoWrite(b) => {
            for x in b {
                bits.push_field(*x as u128, 8, e);
            }
            WObs::Ret(b.len())
        }
        WOp::IoFlush => {
            bits.pad_to(wbits);
            WObs::Unit
        }
        WOp::CopyIn { k, n, .. } => {
            let src = Bits::from_bytes(&copy_src_image(), e);
            for i in 0..*n as usize {
                bits.push_bit(src.bit(*k as usize + i).unwrap_or(0));
            }
            WObs::Unit
        }
    })
}

// ---------------------------------------------------------------------------
// Object-safe writer over the recording backend (used by the explorer)

pub trait Wr {
    fn key(&self) -> String;
    fn apply(&mut self, op: &WOp) -> WObs;
    /// bytes delivered to the backend so far
    fn delivered(&self) -> Vec<u8>;
    fn delivered_len(&self) -> usize;
    fn backend_flushes(&self) -> usize;
    fn counter(&self) -> Option<u64>;
    /// must be called after a caught panic: the writer must not be dropped (Drop flushes and unwraps)
    fn forget(self: Box<Self>);
}

pub struct RecWr<E: Endianness, W: WrAll<E> + Debug> {
    pub w: Option<W>,
    pub log: Rc<RefCell<Vec<u8>>>,
    pub flushes: Rc<RefCell<usize>>,
    pub counter: Option<fn(&W) -> u64>,
    _e: std::marker::PhantomData<E>,
}

impl<E: Endianness, W: WrAll<E> + Debug> Wr for RecWr<E, W> {
    fn key(&self) -> String {
        format!("{:?}", self.w.as_ref().unwrap())
    }
    fn apply(&mut self, op: &WOp) -> WObs {
        apply_wop::<E, W>(self.w.as_mut().unwrap(), op)
    }
    fn delivered(&self) -> Vec<u8> {
        self.log.borrow().clone()
    }
    fn delivered_len(&self) -> usize {
        self.log.borrow().len()
    }
    fn backend_flushes(&self) -> usize {
        *self.flushes.borrow()
    }
    fn counter(&self) -> Option<u64> {
        self.counter.map(|f| f(self.w.as_ref().unwrap()))
    }
    fn forget(mut self: Box<Self>) {
        if let Some(w) = self.w.take() {
            std::mem::forget(w);
        }
    }
}

pub const WBITS: [usize; 5] = [8, 16, 32, 64, 128];

/// wrapper: "" | "count" | "dbg"
pub fn make_rec_writer(e: End, wbits: usize, wrapper: &str) -> Box<dyn Wr> {
    macro_rules! one {
        ($E:ty, $W:ty) => {{
            let rec = Rec::<$W>::new();
            let (log, flushes) = (rec.log.clone(), rec.flushes.clone());
            let w = BufBitWriter::<$E, Rec<$W>>::new(rec);
            match wrapper {
                "" => Box::new(RecWr::<$E, _> { w: Some(w), log, flushes, counter: None, _e: std::marker::PhantomData }) as Box<dyn Wr>,
                "count" => {
                    type C = CountBitWriter<$E, BufBitWriter<$E, Rec<$W>>>;
                    Box::new(RecWr::<$E, C> { w: Some(CountBitWriter::new(w)), log, flushes, counter: Some(|c: &C| c.bits_written as u64), _e: std::marker::PhantomData })
                        as Box<dyn Wr>
                }
                "countp" => {
                    // the counting wrapper with its PRINT parameter on (traces to stderr)
                    type C = CountBitWriter<$E, BufBitWriter<$E, Rec<$W>>, true>;
                    Box::new(RecWr::<$E, C> { w: Some(CountBitWriter::<$E, _, true>::new(w)), log, flushes, counter: Some(|c: &C| c.bits_written as u64), _e: std::marker::PhantomData })
                        as Box<dyn Wr>
                }
                "dbg" => {
                    type D = DbgBitWriter<$E, BufBitWriter<$E, Rec<$W>>>;
                    Box::new(RecWr::<$E, D> { w: Some(DbgBitWriter::new(w)), log, flushes, counter: None, _e: std::marker::PhantomData }) as Box<dyn Wr>
                }
                _ => unreachable!(),
            }
        }};
    }
    macro_rules! by_e {
        ($E:ty) => {
            match wbits {
                8 => one!($E, u8),
                16 => one!($E, u16),
                32 => one!($E, u32),
                64 => one!($E, u64),
                128 => one!($E, u128),
                _ => unreachable!(),
            }
        };
    }
    match e {
        End::BE => by_e!(BE),
        End::LE => by_e!(LE),
    }
}

// ---------------------------------------------------------------------------
// Replaying a history on every real backend with every finisher

/// "vecpre": the growable-vector writer created over a vector that already holds words (they must
/// survive unless overwritten)
pub const REAL_BACKENDS: [&str; 8] = ["vec", "vecref", "slice", "adapter", "adapter3", "adapterlazy", "rec", "vecpre"];
pub const VECPRE_BYTE: u8 = 0x5A;

/// A byte sink that only commits what it was given when it is flushed (like BufWriter): bytes
/// a finished bit writer has not flushed through are not in `committed`.
pub struct LazySink {
    pub pending: Vec<u8>,
    pub committed: Rc<RefCell<Vec<u8>>>,
}
impl std::io::Write for LazySink {
    fn write(&mut self, buf: &[u8]) -> std::io::Result<usize> {
        self.pending.extend_from_slice(buf);
        Ok(buf.len())
    }
    fn flush(&mut self) -> std::io::Result<()> {
        let p = std::mem::take(&mut self.pending);
        self.committed.borrow_mut().extend_from_slice(&p);
        Ok(())
    }
}

/// A byte sink that accepts at most 3 bytes per write call (legal for std::io::Write).
pub struct ChunkSink(pub Vec<u8>);
impl std::io::Write for ChunkSink {
    fn write(&mut self, buf: &[u8]) -> std::io::Result<usize> {
        let k = buf.len().min(3);
        self.0.extend_from_slice(&buf[..k]);
        Ok(k)
    }
    fn flush(&mut self) -> std::io::Result<()> {
        Ok(())
    }
}
/// A byte sink whose k-th write call (0-based) fails with a hard error; every other call accepts
/// the whole buffer.  What it accepted is observable from outside.
pub struct FailSink {
    pub data: Rc<RefCell<Vec<u8>>>,
    pub calls: usize,
    pub fail_at: usize,
}
impl std::io::Write for FailSink {
    fn write(&mut self, buf: &[u8]) -> std::io::Result<usize> {
        let k = self.calls;
        self.calls += 1;
        if k == self.fail_at {
            return Err(std::io::Error::new(std::io::ErrorKind::Other, "injected sink failure"));
        }
        self.data.borrow_mut().extend_from_slice(buf);
        Ok(buf.len())
    }
    fn flush(&mut self) -> std::io::Result<()> {
        Ok(())
    }
}
/// "drop_unwind": the writer is dropped by a panic unwinding through its owner (dropping is dropping)
pub const FINISHERS: [&str; 5] = ["flush", "flush2", "into_inner", "drop", "drop_unwind"];

#[derive(Debug, Clone, PartialEq, Eq)]
pub struct FinishObs {
    /// observation of every operation of the history
    pub obs: Vec<WObs>,
    /// final byte image held by the backend
    pub bytes: Vec<u8>,
    /// values returned by the flush call(s) of the finisher
    pub flush_ret: Vec<usize>,
}

/// Replays `ops` on a fresh writer over the given real backend and finishes it.
/// `cap_words`: capacity for the fixed slice backend.
pub fn run_on_backend(e: End, wbits: usize, backend: &str, finisher: &str, ops: &[WOp], cap_words: usize) -> Result<FinishObs, String> {
    macro_rules! drive {
        ($E:ty, $W:ty, $w:expr, $getbytes:expr, $dropbytes:expr) => {{
            // $w: BufBitWriter, $getbytes: BackendType -> Vec<u8> (after into_inner),
            // $dropbytes: Option<closure () -> Vec<u8>> to observe the backend after a plain drop
            let mut w = $w;
            let mut obs = vec![];
            for op in ops {
                let o = apply_wop::<$E, _>(&mut w, op);
                let stop = matches!(o, WObs::Panic(_) | WObs::Err(_));
                obs.push(o);
                if stop {
                    std::mem::forget(w);
                    return Ok(FinishObs { obs, bytes: vec![], flush_ret: vec![] });
                }
            }
            let mut flush_ret = vec![];
            let r = catch_unwind(AssertUnwindSafe(|| -> Result<(), String> {
                match finisher {
                    "flush" => {
                        flush_ret.push(BitWrite::flush(&mut w).map_err(|e| format!("{e}"))?);
                    }
                    "flush2" => {
                        flush_ret.push(BitWrite::flush(&mut w).map_err(|e| format!("{e}"))?);
                        flush_ret.push(BitWrite::flush(&mut w).map_err(|e| format!("{e}"))?);
                    }
                    _ => {}
                }
                Ok(())
            }));
            match r {
                Err(p) => {
                    std::mem::forget(w);
                    return Err(format!("panic in finisher: {}", crate::util::panic_msg(&p)));
                }
                Ok(Err(e)) => {
                    std::mem::forget(w);
                    return Err(e);
                }
                Ok(Ok(())) => {}
            }
            let db: Option<Box<dyn Fn() -> Vec<u8>>> = $dropbytes;
            if finisher == "drop" && db.is_some() {
                if let Err(p) = catch_unwind(AssertUnwindSafe(move || drop(w))) {
                    return Err(format!("panic in drop: {}", crate::util::panic_msg(&p)));
                }
                return Ok(FinishObs { obs, bytes: (db.unwrap())(), flush_ret });
            }
            if finisher == "drop_unwind" && db.is_some() {
                // the owner of the writer panics: the writer is dropped while the thread is unwinding
                let r = catch_unwind(AssertUnwindSafe(move || {
                    let _owned = w;
                    std::panic::resume_unwind(Box::new(crate::util::Budget));
                }));
                match r {
                    Err(p) if p.downcast_ref::<crate::util::Budget>().is_some() => {}
                    Err(p) => return Err(format!("panic in drop: {}", crate::util::panic_msg(&p))),
                    Ok(()) => {}
                }
                return Ok(FinishObs { obs, bytes: (db.unwrap())(), flush_ret });
            }
            let f: &dyn Fn(_) -> Vec<u8> = &$getbytes;
            let bytes = match catch_unwind(AssertUnwindSafe(|| w.into_inner().map(|b| f(b)).map_err(|e| format!("{e}")))) {
                Ok(Ok(b)) => b,
                Ok(Err(e)) => return Err(e),
                Err(p) => return Err(format!("panic in into_inner: {}", crate::util::panic_msg(&p))),
            };
            Ok(FinishObs { obs, bytes, flush_ret })
        }};
    }
    macro_rules! one {
        ($E:ty, $W:ty) => {{
            match backend {
                "vec" => drive!($E, $W, BufBitWriter::<$E, _>::new(MemWordWriterVec::<$W, Vec<$W>>::new(Vec::new())), |b: MemWordWriterVec<$W, Vec<$W>>| bytes_from_words::<$W>(
                    &b.into_inner()
                ), None),
                "vecpre" => drive!(
                    $E,
                    $W,
                    BufBitWriter::<$E, _>::new(MemWordWriterVec::<$W, Vec<$W>>::new(words_from_bytes::<$W>(&vec![VECPRE_BYTE; cap_words * std::mem::size_of::<$W>()]))),
                    |b: MemWordWriterVec<$W, Vec<$W>>| bytes_from_words::<$W>(&b.into_inner()),
                    None
                ),
                "slice" => drive!(
                    $E,
                    $W,
                    BufBitWriter::<$E, _>::new(MemWordWriterSlice::<$W, Vec<$W>>::new(words_from_bytes::<$W>(&vec![VECPRE_BYTE; cap_words * std::mem::size_of::<$W>()]))),
                    |b: MemWordWriterSlice<$W, Vec<$W>>| bytes_from_words::<$W>(&b.into_inner()),
                    None
                ),
                "adapter" => drive!($E, $W, BufBitWriter::<$E, _>::new(WordAdapter::<$W, Vec<u8>>::new(Vec::new())), |b: WordAdapter<$W, Vec<u8>>| b.into_inner(), None),
                "adapterlazy" => {
                    let committed: Rc<RefCell<Vec<u8>>> = Rc::new(RefCell::new(Vec::new()));
                    let c2 = committed.clone();
                    let c3 = committed.clone();
                    drive!(
                        $E,
                        $W,
                        BufBitWriter::<$E, _>::new(WordAdapter::<$W, LazySink>::new(LazySink { pending: Vec::new(), committed })),
                        move |_b: WordAdapter<$W, LazySink>| c2.borrow().clone(),
                        Some(Box::new(move || c3.borrow().clone()))
                    )
                }
                b if b.starts_with("adapterfail:") => {
                    let fail_at: usize = b["adapterfail:".len()..].parse().unwrap();
                    let data: Rc<RefCell<Vec<u8>>> = Rc::new(RefCell::new(Vec::new()));
                    let d2 = data.clone();
                    let d3 = data.clone();
                    drive!(
                        $E,
                        $W,
                        BufBitWriter::<$E, _>::new(WordAdapter::<$W, FailSink>::new(FailSink { data, calls: 0, fail_at })),
                        move |_b: WordAdapter<$W, FailSink>| d2.borrow().clone(),
                        Some(Box::new(move || d3.borrow().clone()))
                    )
                }
                "adapter3" => drive!($E, $W, BufBitWriter::<$E, _>::new(WordAdapter::<$W, ChunkSink>::new(ChunkSink(Vec::new()))), |b: WordAdapter<$W, ChunkSink>| b.into_inner().0, None),
                "rec" => {
                    let rec = Rec::<$W>::new();
                    let log = rec.log.clone();
                    let log2 = rec.log.clone();
                    drive!($E, $W, BufBitWriter::<$E, _>::new(rec), move |_b: Rec<$W>| log.borrow().clone(), Some(Box::new(move || log2.borrow().clone())))
                }
                "vecref" => {
                    // borrowed storage; the writer is finished by flush / flush2 / drop only
                    let mut store: Vec<$W> = Vec::new();
                    let mut obs = vec![];
                    let mut flush_ret = vec![];
                    {
                        let mut w = BufBitWriter::<$E, _>::new(MemWordWriterVec::<$W, &mut Vec<$W>>::new(&mut store));
                        for op in ops {
                            let o = apply_wop::<$E, _>(&mut w, op);
                            let stop = matches!(o, WObs::Panic(_) | WObs::Err(_));
                            obs.push(o);
                            if stop {
                                std::mem::forget(w);
                                return Ok(FinishObs { obs, bytes: vec![], flush_ret: vec![] });
                            }
                        }
                        let r = catch_unwind(AssertUnwindSafe(|| -> Result<(), String> {
                            match finisher {
                                "flush" | "into_inner" => flush_ret.push(BitWrite::flush(&mut w).map_err(|e| format!("{e}"))?),
                                "flush2" => {
                                    flush_ret.push(BitWrite::flush(&mut w).map_err(|e| format!("{e}"))?);
                                    flush_ret.push(BitWrite::flush(&mut w).map_err(|e| format!("{e}"))?);
                                }
                                _ => {}
                            }
                            Ok(())
                        }));
                        match r {
                            Err(p) => {
                                std::mem::forget(w);
                                return Err(format!("panic in finisher: {}", crate::util::panic_msg(&p)));
                            }
                            Ok(Err(e)) => {
                                std::mem::forget(w);
                                return Err(e);
                            }
                            Ok(Ok(())) => {}
                        }
                        // drop(w) here flushes
                        if finisher == "drop_unwind" {
                            let r = catch_unwind(AssertUnwindSafe(move || {
                                let _owned = w;
                                std::panic::resume_unwind(Box::new(crate::util::Budget));
                            }));
                            if let Err(p) = r {
                                if p.downcast_ref::<crate::util::Budget>().is_none() {
                                    return Err(format!("panic in drop: {}", crate::util::panic_msg(&p)));
                                }
                            }
                        } else if let Err(p) = catch_unwind(AssertUnwindSafe(move || drop(w))) {
                            return Err(format!("panic in drop: {}", crate::util::panic_msg(&p)));
                        }
                    }
                    Ok(FinishObs { obs, bytes: bytes_from_words::<$W>(&store), flush_ret })
                }
                _ => unreachable!(),
            }
        }};
    }
    macro_rules! by_e {
        ($E:ty) => {
            match wbits {
                8 => one!($E, u8),
                16 => one!($E, u16),
                32 => one!($E, u32),
                64 => one!($E, u64),
                128 => one!($E, u128),
                _ => unreachable!(),
            }
        };
    }
    match e {
        End::BE => by_e!(BE),
        End::LE => by_e!(LE),
    }
}
