//! Makes non-termination visible: every worker thread ticks a counter at each
//! transition; a watchdog thread reports a thread whose counter is stuck.

use std::cell::RefCell;
use std::sync::atomic::{AtomicBool, AtomicU64, Ordering};
use std::sync::{Arc, Mutex};

pub struct Slot {
    pub ticks: AtomicU64,
    pub active: AtomicBool,
    /// per exploration run: JSON {"base": replay doc without ops, "alphabet": [...]}
    pub ctx: Mutex<String>,
    /// per state: JSON list of the operations leading to the state being expanded
    pub desc: Mutex<String>,
    /// index (in the alphabet) of the operation being applied
    pub aux: AtomicU64,
}

static SLOTS: Mutex<Vec<Arc<Slot>>> = Mutex::new(Vec::new());

thread_local! {
    static MY: RefCell<Option<Arc<Slot>>> = const { RefCell::new(None) };
}

fn my() -> Arc<Slot> {
    MY.with(|m| {
        let mut m = m.borrow_mut();
        if m.is_none() {
            let s = Arc::new(Slot { ticks: AtomicU64::new(0), active: AtomicBool::new(false), ctx: Mutex::new(String::new()), desc: Mutex::new(String::new()), aux: AtomicU64::new(u64::MAX) });
            SLOTS.lock().unwrap().push(s.clone());
            *m = Some(s);
        }
        m.as_ref().unwrap().clone()
    })
}

#[inline]
pub fn tick() {
    MY.with(|m| {
        if let Some(s) = m.borrow().as_ref() {
            s.ticks.fetch_add(1, Ordering::Relaxed);
        }
    });
}

/// Describe what this thread is about to do (JSON replay recipe); marks it active.
pub fn enter(desc: impl FnOnce() -> String) {
    let s = my();
    *s.desc.lock().unwrap() = desc();
    s.ticks.fetch_add(1, Ordering::Relaxed);
    s.active.store(true, Ordering::Relaxed);
}

pub fn set_context(ctx: String) {
    let s = my();
    *s.ctx.lock().unwrap() = ctx;
}

#[inline]
pub fn set_aux(i: u64) {
    MY.with(|m| {
        if let Some(s) = m.borrow().as_ref() {
            s.aux.store(i, Ordering::Relaxed);
        }
    });
}

pub fn leave() {
    let s = my();
    s.active.store(false, Ordering::Relaxed);
}

/// Start the watchdog; `on_hang(desc)` is called once with the stuck thread's description
/// and must not return (it writes the replay and exits the process).
pub fn start(limit_s: u64, on_hang: impl Fn(String, String, u64) + Send + 'static) {
    std::thread::spawn(move || {
        let mut last: Vec<(u64, u64)> = Vec::new(); // (ticks, seconds stuck)
        loop {
            std::thread::sleep(std::time::Duration::from_secs(1));
            let slots = SLOTS.lock().unwrap().clone();
            last.resize(slots.len(), (0, 0));
            for (i, s) in slots.iter().enumerate() {
                let t = s.ticks.load(Ordering::Relaxed);
                if s.active.load(Ordering::Relaxed) && t == last[i].0 {
                    last[i].1 += 1;
                    if last[i].1 >= limit_s {
                        let d = s.desc.lock().unwrap().clone();
                        let c = s.ctx.lock().unwrap().clone();
                        on_hang(c, d, s.aux.load(Ordering::Relaxed));
                    }
                } else {
                    last[i] = (t, 0);
                }
            }
        }
    });
}
