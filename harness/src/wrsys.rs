//! Writer state-space exploration.  BufBitWriter is not Clone, so a state is the
//! shortest operation history reaching it and is rebuilt by replay; state identity
//! is (Debug string of the real writer over the recording backend, model pending bits).

use crate::model::{Bits, End};
use crate::report::{Outcome, Violation};
use crate::util::{fnv, hex};
use crate::wr::*;
use serde_json::{json, Value};
use std::collections::{HashMap, VecDeque};

pub struct WrRun<'a> {
    pub property: &'static str,
    pub e: End,
    pub wbits: usize,
    pub wrapper: &'static str,
    /// alphabet used at depth i is alphabets[min(i, len-1)]
    pub alphabets: &'a [Vec<WOp>],
    /// maximal history length (ignored when fixpoint)
    pub depth: usize,
    pub fixpoint: bool,
    pub max_states: usize,
    /// replay every node's history on the real backends with every finisher
    pub real_backends: bool,
    pub check_counter: bool,
    /// how many of the 28 (backend, finisher) combinations are replayed at the deepest level
    /// (all 28 at every shallower node); the selection rotates with the node number
    pub leaf_combos: usize,
}

struct Node {
    parent: u32,
    op: Option<WOp>,
    depth: u32,
    pending: Bits,
    /// bits written by operations (padding excluded) - for counters
    written: u64,
}

fn path_to(nodes: &[Node], mut i: usize) -> Vec<WOp> {
    let mut p = vec![];
    while let Some(op) = &nodes[i].op {
        p.push(op.clone());
        i = nodes[i].parent as usize;
    }
    p.reverse();
    p
}

pub fn cfg_id(e: End, wbits: usize, wrapper: &str) -> String {
    let w = if wrapper.is_empty() { String::new() } else { format!("/{}", wrapper) };
    format!("{}/w{}{}", e.name(), wbits, w)
}

pub fn replay_doc(e: End, wbits: usize, wrapper: &str, backend: &str, finisher: &str, ops: &[WOp]) -> Value {
    json!({"kind": "writer", "e": e, "wbits": wbits, "wrapper": wrapper, "backend": backend, "finisher": finisher, "ops": ops, "io_align": crate::util::io_align()})
}

/// model image of a whole history: (bits incl. flush padding, expected observations, written)
pub fn model_history(ops: &[WOp], e: End, wbits: usize) -> (Bits, Vec<WObs>, u64) {
    let mut bits = Bits::new();
    let mut obs = vec![];
    let mut written = 0u64;
    for op in ops {
        let before = bits.len();
        let o = model_apply(&mut bits, op, e, wbits).expect("model");
        if !matches!(op, WOp::Flush | WOp::IoFlush) {
            written += (bits.len() - before) as u64;
        }
        obs.push(o);
    }
    (bits, obs, written)
}

/// Check a complete history on one real backend with one finisher against the model.
pub fn check_real(e: End, wbits: usize, backend: &str, finisher: &str, ops: &[WOp]) -> Result<(), (String, String)> {
    let (bits, mobs, _) = model_history(ops, e, wbits);
    let cap = bits.len().div_ceil(wbits) + 2;
    let r = run_on_backend(e, wbits, backend, finisher, ops, cap);
    let fo = match r {
        Ok(fo) => fo,
        Err(msg) => return Err(("error".into(), format!("{} / {}: {}", backend, finisher, msg))),
    };
    for (i, (o, m)) in fo.obs.iter().zip(mobs.iter()).enumerate() {
        let same = match (o, m) {
            (WObs::Unsupported, _) => true,
            (a, b) => a == b,
        };
        if !same {
            let sym = match o {
                WObs::Panic(_) => "panic",
                WObs::Err(_) => "error",
                _ => "return",
            };
            return Err((sym.into(), format!("{} / {}: op {} {:?}: expected {:?} got {:?}", backend, finisher, i, ops[i], m, o)));
        }
    }
    if fo.obs.len() < ops.len() {
        return Err(("error".into(), format!("{} / {}: history stopped early", backend, finisher)));
    }
    let pending = bits.len() % wbits;
    let mut want = bits.to_bytes(e, wbits);
    if backend == "slice" {
        // the fixed slice starts out holding a non-zero pattern: words never written keep it
        want.resize(cap * wbits / 8, crate::wr::VECPRE_BYTE);
    }
    if backend == "vecpre" && want.len() < cap * wbits / 8 {
        want.resize(cap * wbits / 8, crate::wr::VECPRE_BYTE);
    }
    if fo.bytes != want {
        return Err(("bytes".into(), format!("{} / {}: final image expected {} got {}", backend, finisher, hex(&want), hex(&fo.bytes))));
    }
    let want_ret: Vec<usize> = match finisher {
        "flush" => vec![pending],
        "flush2" => vec![pending, 0],
        "into_inner" if backend == "vecref" => vec![pending],
        _ => vec![],
    };
    if fo.flush_ret != want_ret {
        return Err(("return".into(), format!("{} / {}: flush returned {:?}, expected {:?}", backend, finisher, fo.flush_ret, want_ret)));
    }
    Ok(())
}

pub fn explore(run: &WrRun) -> Outcome {
    let mut out = Outcome::new();
    let cfg = cfg_id(run.e, run.wbits, run.wrapper);
    out.cov.configs.insert(cfg.clone());
    let wbits = run.wbits;
    let mut seen: HashMap<String, u32> = HashMap::new();
    let mut nodes: Vec<Node> = vec![];
    let mut queue: VecDeque<u32> = VecDeque::new();
    let mut sigs: HashMap<String, u64> = HashMap::new();
    // distinct MODEL states (pending bits at each depth): independent of the undefined bits of the
    // real buffer, hence comparable across builds of the library
    let mut model_seen: std::collections::HashSet<(u32, String)> = std::collections::HashSet::new();
    let rebuild = |ops: &[WOp]| -> Box<dyn Wr> {
        let mut w = make_rec_writer(run.e, wbits, run.wrapper);
        for op in ops {
            w.apply(op);
        }
        w
    };
    {
        let w0 = rebuild(&[]);
        seen.insert(format!("{}|", w0.key()), 0);
        nodes.push(Node { parent: 0, op: None, depth: 0, pending: Bits::new(), written: 0 });
        queue.push_back(0);
    }
    let mut push_v = |out: &mut Outcome, sigs: &mut HashMap<String, u64>, v: Violation| {
        let c = sigs.entry(v.sig()).or_insert(0);
        *c += 1;
        if *c <= 3 {
            out.violations.push(v);
        }
    };
    let mut sampled = false;
    let t_start = std::time::Instant::now();
    let wall_cap = crate::rdsys::wall_cap_s() * 5;
    while let Some(id) = queue.pop_front() {
        if (id & 0xFF) == 0 && t_start.elapsed().as_secs() >= wall_cap {
            out.cov.caps_hit.push(format!("{}: wall cap of {} s reached after {} states", cfg, wall_cap, nodes.len()));
            break;
        }
        let nviol: u64 = sigs.values().sum();
        if nviol >= crate::rdsys::VIOLATION_BUDGET {
            out.cov.caps_hit.push(format!("{}: exploration stopped after {} violations", cfg, nviol));
            break;
        }
        let depth = nodes[id as usize].depth as usize;
        let path = path_to(&nodes, id as usize);
        crate::watchdog::set_context(serde_json::to_string(&json!({"base": replay_doc(run.e, wbits, run.wrapper, "rec", "flush", &[]), "alphabet": []})).unwrap());
        crate::watchdog::set_aux(u64::MAX);
        crate::watchdog::enter(|| serde_json::to_string(&path).unwrap());
        let mut node_bad = false;
        if run.real_backends {
            let is_leaf = !run.fixpoint && depth >= run.depth;
            let mut combo = 0usize;
            for backend in REAL_BACKENDS {
                for finisher in FINISHERS {
                    combo += 1;
                    // leaf_combos is expressed in 28ths of the (backend, finisher) product (40 pairs)
                    const NCOMBO: usize = REAL_BACKENDS.len() * FINISHERS.len();
                    if is_leaf && run.leaf_combos < 28 && (combo + id as usize * 7) % NCOMBO >= run.leaf_combos * NCOMBO / 28 + 1 {
                        continue;
                    }
                    out.cov.traces_validated += 1;
                    if let Err((symptom, detail)) = check_real(run.e, wbits, backend, finisher, &path) {
                        let v = Violation {
                            property: run.property.into(),
                            system: format!("writer-backend:{}:{}", backend, finisher),
                            config: cfg.clone(),
                            op_class: path.last().map(|o| o.class()).unwrap_or("none").into(),
                            symptom,
                            detail,
                            replay: replay_doc(run.e, wbits, run.wrapper, backend, finisher, &path),
                        };
                        push_v(&mut out, &mut sigs, v);
                        node_bad = true;
                    }
                }
            }
        }
        if node_bad {
            // the state is already wrong (e.g. corrupt pending bits): its descendants would only repeat the finding
            continue;
        }
        if !run.fixpoint && depth >= run.depth {
            continue;
        }
        let alphabet = &run.alphabets[depth.min(run.alphabets.len() - 1)];
        for op in alphabet {
            let mut w = rebuild(&path);
            let d0 = w.delivered_len();
            let mut bits = nodes[id as usize].pending.clone();
            let before = bits.len();
            let exp = match model_apply(&mut bits, op, run.e, wbits) {
                Some(x) => x,
                None => continue,
            };
            let added = if matches!(op, WOp::Flush | WOp::IoFlush) { 0 } else { (bits.len() - before) as u64 };
            let obs = w.apply(op);
            out.cov.transitions += 1;
            if obs == WObs::Unsupported {
                continue;
            }
            if depth >= 1 {
                out.cov.nontrivial += 1;
            }
            let mut verdict: Result<(), (String, String)> = Ok(());
            if obs != exp {
                let sym = match &obs {
                    WObs::Panic(_) => "panic",
                    WObs::Err(_) => "error",
                    _ => "return",
                };
                verdict = Err((sym.into(), format!("expected {:?} got {:?}", exp, obs)));
            }
            if let WObs::Panic(_) = obs {
                w.forget();
                let mut ops = path.clone();
                ops.push(op.clone());
                let (sym, det) = verdict.unwrap_err();
                let v = Violation {
                    property: run.property.into(),
                    system: "writer".into(),
                    config: cfg.clone(),
                    op_class: op.class().into(),
                    symptom: sym,
                    detail: format!("after {} ops: {:?}: {}", path.len(), op, det),
                    replay: replay_doc(run.e, wbits, run.wrapper, "rec", "flush", &ops),
                };
                push_v(&mut out, &mut sigs, v);
                continue;
            }
            let k = bits.len() / wbits;
            let want = bits.slice(0, k * wbits).to_bytes(run.e, 0);
            let all = w.delivered();
            let got = &all[d0..];
            // an observation = what the call returned, how many bytes it delivered, how many bits stay pending
            out.cov.observe(op.class(), fnv(format!("{:?}/{}/{}", obs, got.len(), bits.len() % wbits).as_bytes()));
            if verdict.is_ok() && got != &want[..] {
                verdict = Err(("bytes".into(), format!("words delivered during the step: expected {} got {}", hex(&want), hex(got))));
            }
            let new_pending = bits.slice(k * wbits, bits.len());
            let written = nodes[id as usize].written + added;
            if verdict.is_ok() && run.check_counter {
                if let Some(c) = w.counter() {
                    if c != written {
                        verdict = Err(("counter".into(), format!("bits_written = {} but {} bits were written", c, written)));
                    }
                }
            }
            match verdict {
                Ok(()) => {
                    model_seen.insert((depth as u32 + 1, new_pending.to_string01()));
                    let key = format!("{}|{}", w.key(), new_pending.to_string01());
                    if !seen.contains_key(&key) {
                        if run.max_states > 0 && nodes.len() >= run.max_states {
                            if !out.cov.caps_hit.iter().any(|c| c.starts_with(&cfg)) {
                                out.cov.caps_hit.push(format!("{}: state cap {} reached", cfg, run.max_states));
                            }
                            continue;
                        }
                        let nid = nodes.len() as u32;
                        seen.insert(key, nid);
                        nodes.push(Node { parent: id, op: Some(op.clone()), depth: depth as u32 + 1, pending: new_pending, written });
                        out.cov.max_depth = out.cov.max_depth.max(depth as u64 + 1);
                        queue.push_back(nid);
                    }
                }
                Err((symptom, detail)) => {
                    let mut ops = path.clone();
                    ops.push(op.clone());
                    let v = Violation {
                        property: run.property.into(),
                        system: "writer".into(),
                        config: cfg.clone(),
                        op_class: op.class().into(),
                        symptom,
                        detail: format!("after {} ops: {:?}: {}", path.len(), op, detail),
                        replay: replay_doc(run.e, wbits, run.wrapper, "rec", "flush", &ops),
                    };
                    push_v(&mut out, &mut sigs, v);
                }
            }
        }
        if !sampled && depth >= 2 {
            sampled = true;
            out.cov.sample(json!({"config": cfg, "history": path, "pending_bits": nodes[id as usize].pending.to_string01()}));
        }
    }
    crate::watchdog::leave();
    out.cov.states += nodes.len() as u64;
    out.cov.traces_validated += out.cov.transitions;
    out.cov.add_extra("writer_model_states", model_seen.len() as u64);
    out
}

/// Replay a writer history step by step against the model (no explorer).
pub fn replay(doc: &Value) -> (Vec<String>, bool) {
    let e: End = serde_json::from_value(doc["e"].clone()).unwrap();
    let wbits = doc["wbits"].as_u64().unwrap() as usize;
    let wrapper = crate::rdsys::leak(doc["wrapper"].as_str().unwrap_or(""));
    let backend = doc["backend"].as_str().unwrap_or("rec").to_string();
    let finisher = doc["finisher"].as_str().unwrap_or("flush").to_string();
    let ops: Vec<WOp> = serde_json::from_value(doc["ops"].clone()).unwrap();
    crate::util::set_io_align(doc.get("io_align").and_then(|a| a.as_u64()).map(|a| a as u8));
    let mut log = vec![];
    let mut failed = false;
    // step-by-step on the recording backend
    let mut w = make_rec_writer(e, wbits, wrapper);
    let mut bits = Bits::new();
    let mut delivered_model = 0usize;
    let mut written = 0u64;
    for op in &ops {
        let before = bits.len();
        let exp = model_apply(&mut bits, op, e, wbits).unwrap();
        if !matches!(op, WOp::Flush | WOp::IoFlush) {
            written += (bits.len() - before) as u64;
        }
        let d0 = w.delivered_len();
        let obs = w.apply(op);
        if let WObs::Panic(_) = obs {
            log.push(format!("{:?}: expected {:?} observed {:?}", op, exp, obs));
            w.forget();
            return (log, true);
        }
        let k = bits.len() / wbits;
        let want = bits.slice(delivered_model, k * wbits).to_bytes(e, 0);
        delivered_model = k * wbits;
        let all = w.delivered();
        let got = all[d0..].to_vec();
        let mut ok = obs == exp || obs == WObs::Unsupported;
        ok &= got == want;
        let mut cnt = String::new();
        if let Some(c) = w.counter() {
            cnt = format!(" counter={} (written {})", c, written);
            ok &= c == written;
        }
        log.push(format!("{:<50} expect {:?} observed {:?}; delivered {} (expected {}){} => {}", format!("{:?}", op), exp, obs, hex(&got), hex(&want), cnt, if ok { "ok" } else { "MISMATCH" }));
        if !ok {
            failed = true;
            break;
        }
    }
    if !failed {
        match check_real(e, wbits, &backend, &finisher, &ops) {
            Ok(()) => log.push(format!("whole history on backend {} with finisher {}: ok", backend, finisher)),
            Err((s, d)) => {
                log.push(format!("whole history on backend {} with finisher {}: {} {}", backend, finisher, s, d));
                failed = true;
            }
        }
    }
    (log, failed)
}
