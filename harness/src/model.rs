//! Reference model: a bit vector with the canonical layout of C01 and textbook
//! definitions of every code.  Deliberately boring; shares no code with the
//! library.  All arithmetic in u128.

use serde::{Deserialize, Serialize};

#[derive(Clone, Copy, PartialEq, Eq, Debug, Hash, PartialOrd, Ord, Serialize, Deserialize)]
pub enum End {
    BE,
    LE,
}

impl End {
    pub fn name(self) -> &'static str {
        match self {
            End::BE => "BE",
            End::LE => "LE",
        }
    }
    pub const BOTH: [End; 2] = [End::BE, End::LE];
}

/// A sequence of bits, one per byte (0/1), in *stream order*.
#[derive(Clone, Debug, PartialEq, Eq, Default)]
pub struct Bits {
    pub v: Vec<u8>,
}

impl Bits {
    pub fn new() -> Self {
        Bits { v: Vec::new() }
    }
    pub fn len(&self) -> usize {
        self.v.len()
    }
    pub fn is_empty(&self) -> bool {
        self.v.is_empty()
    }
    /// Canonical layout: stream bit i is bit 7-(i%8) of byte i/8 (BE) or bit i%8 (LE).
    pub fn from_bytes(bytes: &[u8], e: End) -> Self {
        let mut v = Vec::with_capacity(bytes.len() * 8);
        for &b in bytes {
            for i in 0..8 {
                let bit = match e {
                    End::BE => (b >> (7 - i)) & 1,
                    End::LE => (b >> i) & 1,
                };
                v.push(bit);
            }
        }
        Bits { v }
    }
    /// Byte image, zero padded up to a multiple of `pad_bits` bits (pad_bits multiple of 8).
    pub fn to_bytes(&self, e: End, pad_bits: usize) -> Vec<u8> {
        let mut n = self.v.len();
        if pad_bits > 0 {
            n = n.div_ceil(pad_bits) * pad_bits;
        }
        let n = n.div_ceil(8) * 8;
        let mut out = vec![0u8; n / 8];
        for (i, &b) in self.v.iter().enumerate() {
            if b != 0 {
                match e {
                    End::BE => out[i / 8] |= 1 << (7 - (i % 8)),
                    End::LE => out[i / 8] |= 1 << (i % 8),
                }
            }
        }
        out
    }
    pub fn bit(&self, i: usize) -> Option<u8> {
        self.v.get(i).copied()
    }
    /// The next n bits from pos as an integer: first bit most significant (BE) /
    /// least significant (LE).  `zx`: bits beyond the end read as zero, else None.
    pub fn field(&self, pos: usize, n: usize, e: End, zx: bool) -> Option<u128> {
        debug_assert!(n <= 128);
        let mut r: u128 = 0;
        for i in 0..n {
            let b = match self.v.get(pos + i) {
                Some(&b) => b,
                None => {
                    if zx {
                        0
                    } else {
                        return None;
                    }
                }
            } as u128;
            match e {
                End::BE => r = (r << 1) | b,
                End::LE => r |= b << i,
            }
        }
        Some(r)
    }
    pub fn push_bit(&mut self, b: u8) {
        self.v.push(b & 1);
    }
    pub fn push_field(&mut self, val: u128, n: usize, e: End) {
        for i in 0..n {
            let b = match e {
                End::BE => (val >> (n - 1 - i)) & 1,
                End::LE => (val >> i) & 1,
            };
            self.v.push(b as u8);
        }
    }
    pub fn push_unary(&mut self, x: u64) {
        for _ in 0..x {
            self.v.push(0);
        }
        self.v.push(1);
    }
    pub fn extend(&mut self, o: &Bits) {
        self.v.extend_from_slice(&o.v);
    }
    pub fn pad_to(&mut self, mult: usize) {
        while self.v.len() % mult != 0 {
            self.v.push(0);
        }
    }
    /// Number of zeros from pos up to the next one.
    pub fn unary_at(&self, pos: usize, zx: bool) -> Dec<u64> {
        let mut i = pos;
        loop {
            match self.v.get(i) {
                Some(1) => return Dec::Ok((i - pos) as u64, i - pos + 1),
                Some(_) => i += 1,
                None => {
                    return if zx { Dec::Infinite } else { Dec::Eof };
                }
            }
        }
    }
    pub fn slice(&self, a: usize, b: usize) -> Bits {
        Bits {
            v: self.v[a..b].to_vec(),
        }
    }
    pub fn to_string01(&self) -> String {
        self.v.iter().map(|&b| if b != 0 { '1' } else { '0' }).collect()
    }
}

/// Result of a reference decode.
#[derive(Clone, Copy, Debug, PartialEq, Eq)]
pub enum Dec<T> {
    /// value, consumed bits
    Ok(T, usize),
    /// needs a bit beyond the end of a strict stream
    Eof,
    /// infinitely many zeros on a zero-extended stream (never returns)
    Infinite,
    /// bit string is not a codeword of a value in the code's domain
    Invalid,
}

#[derive(Clone, Copy, PartialEq, Eq, Debug, Hash, PartialOrd, Ord, Serialize, Deserialize)]
pub enum Code {
    Unary,
    Gamma,
    Delta,
    Omega,
    Zeta(u32),
    Pi(u32),
    Rice(u32),
    Golomb(u64),
    ExpGolomb(u32),
    MinBin(u64),
    VByteBe,
    VByteLe,
}

impl Code {
    pub fn name(&self) -> String {
        match self {
            Code::Unary => "unary".into(),
            Code::Gamma => "gamma".into(),
            Code::Delta => "delta".into(),
            Code::Omega => "omega".into(),
            Code::Zeta(k) => format!("zeta{}", k),
            Code::Pi(k) => format!("pi{}", k),
            Code::Rice(k) => format!("rice{}", k),
            Code::Golomb(b) => format!("golomb{}", b),
            Code::ExpGolomb(k) => format!("expgolomb{}", k),
            Code::MinBin(u) => format!("minbin{}", u),
            Code::VByteBe => "vbytebe".into(),
            Code::VByteLe => "vbytele".into(),
        }
    }
    pub fn family(&self) -> &'static str {
        match self {
            Code::Unary => "unary",
            Code::Gamma => "gamma",
            Code::Delta => "delta",
            Code::Omega => "omega",
            Code::Zeta(_) => "zeta",
            Code::Pi(_) => "pi",
            Code::Rice(_) => "rice",
            Code::Golomb(_) => "golomb",
            Code::ExpGolomb(_) => "expgolomb",
            Code::MinBin(_) => "minbin",
            Code::VByteBe => "vbytebe",
            Code::VByteLe => "vbytele",
        }
    }
    /// Largest value in the domain (documented maxima).
    pub fn max_value(&self) -> u64 {
        match self {
            Code::VByteBe | Code::VByteLe => u64::MAX,
            Code::MinBin(u) => u - 1,
            _ => u64::MAX - 1,
        }
    }
}

fn ilog2(x: u128) -> u32 {
    debug_assert!(x > 0);
    127 - x.leading_zeros()
}

fn mask(n: u32) -> u128 {
    if n >= 128 {
        u128::MAX
    } else {
        (1u128 << n) - 1
    }
}

/// Minimal binary code, from the module documentation of minimal_binary.rs:
/// s = ceil(log2 u); x < 2^s - u  => x in s-1 bits; else x - u + 2^s in s bits.
/// LE convention: the first s-1 bits are a field (LSB first), the extra bit comes last.
pub fn enc_minbin(out: &mut Bits, x: u128, u: u128, e: End) {
    assert!(u > 0 && x < u);
    let s = if u == 1 { 0 } else { ilog2(u - 1) + 1 }; // ceil(log2 u)
    let short = (1u128 << s) - u;
    if short == 0 {
        // u is a power of two: all codewords have s bits, there is no "extra" bit:
        // a plain s-bit field (this is what makes Golomb_{2^k} = Rice_k)
        out.push_field(x, s as usize, e);
    } else if x < short {
        out.push_field(x, (s - 1) as usize, e);
    } else {
        let t = x + (1u128 << s) - u;
        // s bits: the high s-1 bits as a field, then the extra (lowest) bit last
        out.push_field(t >> 1, (s - 1) as usize, e);
        out.push_bit((t & 1) as u8);
    }
}

pub fn len_minbin(x: u128, u: u128) -> usize {
    let s = if u == 1 { 0 } else { ilog2(u - 1) + 1 };
    let short = (1u128 << s) - u;
    if x < short {
        (if s == 0 { 0 } else { s - 1 }) as usize
    } else {
        s as usize
    }
}

fn dec_minbin(b: &Bits, pos: usize, u: u128, e: End, zx: bool) -> Dec<u128> {
    let s = if u == 1 { 0 } else { ilog2(u - 1) + 1 };
    let short = (1u128 << s) - u;
    if s == 0 {
        return Dec::Ok(0, 0);
    }
    if short == 0 {
        return match b.field(pos, s as usize, e, zx) {
            Some(v) => Dec::Ok(v, s as usize),
            None => Dec::Eof,
        };
    }
    let p = match b.field(pos, (s - 1) as usize, e, zx) {
        Some(v) => v,
        None => return Dec::Eof,
    };
    if p < short {
        Dec::Ok(p, (s - 1) as usize)
    } else {
        let lo = match b.field(pos + (s - 1) as usize, 1, e, zx) {
            Some(v) => v,
            None => return Dec::Eof,
        };
        let t = (p << 1) | lo;
        let x = t + u - (1u128 << s);
        if x >= u {
            return Dec::Invalid;
        }
        Dec::Ok(x, s as usize)
    }
}

/// The interval bound of ζ_k at level h: 2^((h+1)k) - 2^(hk).  `lib_compat`
/// selects the library's behaviour when 2^((h+1)k) does not fit 64 bits
/// (bound 2^64 - 2^(hk)); the property C04 only claims the definition where it fits.
pub fn zeta_bound(h: u32, k: u32, lib_compat: bool) -> Option<u128> {
    let lo = (h as u64 * k as u64) as u32;
    let hi = lo + k;
    if hi > 64 {
        if lib_compat {
            if lo >= 64 {
                return None;
            }
            Some((1u128 << 64) - (1u128 << lo))
        } else {
            if hi > 126 {
                return None;
            }
            Some((1u128 << hi) - (1u128 << lo))
        }
    } else {
        Some((1u128 << hi) - (1u128 << lo))
    }
}

/// true iff the definition of ζ_k(n) is claimed by C04 (interval bound fits 64 bits)
pub fn zeta_defn_fits(n: u64, k: u32) -> bool {
    let nn = n as u128 + 1;
    let h = ilog2(nn) / k;
    (h + 1) as u64 * k as u64 <= 64
}

fn vbyte_groups(n: u64) -> Vec<u8> {
    // complete code, offset definition: L bytes cover [o_L, o_L + 2^(7L)) with
    // o_L = sum_{i=1}^{L-1} 2^(7i); returns the 7-bit groups, most significant first
    let n = n as u128;
    let mut l = 1u32;
    let mut off: u128 = 0;
    loop {
        let span = 1u128 << (7 * l);
        if n < off + span {
            break;
        }
        off += span;
        l += 1;
    }
    let m = n - off;
    (0..l).rev().map(|i| ((m >> (7 * i)) & 0x7f) as u8).collect()
}

pub fn vbyte_bytes(n: u64, big: bool) -> Vec<u8> {
    let g = vbyte_groups(n);
    let l = g.len();
    let mut out = Vec::with_capacity(l);
    if big {
        for (i, &x) in g.iter().enumerate() {
            out.push(if i + 1 < l { x | 0x80 } else { x });
        }
    } else {
        for (i, &x) in g.iter().rev().enumerate() {
            out.push(if i + 1 < l { x | 0x80 } else { x });
        }
    }
    out
}

/// Reference encoder.  Panics on out-of-domain input.
pub fn encode_into(out: &mut Bits, code: Code, n: u64, e: End, zeta_lib_compat: bool) {
    let nn = n as u128 + 1;
    match code {
        Code::Unary => out.push_unary(n),
        Code::Gamma => {
            assert!(n < u64::MAX);
            let l = ilog2(nn);
            out.push_unary(l as u64);
            out.push_field(nn - (1u128 << l), l as usize, e);
        }
        Code::Delta => {
            assert!(n < u64::MAX);
            let l = ilog2(nn);
            encode_into(out, Code::Gamma, l as u64, e, zeta_lib_compat);
            out.push_field(nn - (1u128 << l), l as usize, e);
        }
        Code::Omega => {
            assert!(n < u64::MAX);
            fn rec(out: &mut Bits, x: u128, e: End) {
                if x <= 1 {
                    return;
                }
                let l = ilog2(x);
                rec(out, l as u128, e);
                match e {
                    End::BE => out.push_field(x, (l + 1) as usize, e),
                    End::LE => {
                        // rotate the l+1 bit block left by one
                        let r = ((x << 1) | 1) & mask(l + 1);
                        out.push_field(r, (l + 1) as usize, e)
                    }
                }
            }
            rec(out, nn, e);
            out.push_bit(0);
        }
        Code::Zeta(k) => {
            assert!(n < u64::MAX && k >= 1);
            let h = ilog2(nn) / k;
            out.push_unary(h as u64);
            let lo = 1u128 << (h * k);
            let bound = zeta_bound(h, k, zeta_lib_compat).expect("zeta bound");
            enc_minbin(out, nn - lo, bound, e);
        }
        Code::Pi(k) => {
            assert!(n < u64::MAX);
            let l = ilog2(nn);
            encode_into(out, Code::Rice(k), l as u64, e, zeta_lib_compat);
            out.push_field(nn - (1u128 << l), l as usize, e);
        }
        Code::Rice(k) => {
            out.push_unary(n >> k);
            out.push_field(n as u128 & mask(k), k as usize, e);
        }
        Code::Golomb(b) => {
            assert!(b >= 1);
            out.push_unary(n / b);
            enc_minbin(out, (n % b) as u128, b as u128, e);
        }
        Code::ExpGolomb(k) => {
            assert!(n < u64::MAX || k > 0);
            encode_into(out, Code::Gamma, n >> k, e, zeta_lib_compat);
            out.push_field(n as u128 & mask(k), k as usize, e);
        }
        Code::MinBin(u) => enc_minbin(out, n as u128, u as u128, e),
        Code::VByteBe => {
            for b in vbyte_bytes(n, true) {
                out.push_field(b as u128, 8, e);
            }
        }
        Code::VByteLe => {
            for b in vbyte_bytes(n, false) {
                out.push_field(b as u128, 8, e);
            }
        }
    }
}

pub fn encode(code: Code, n: u64, e: End) -> Bits {
    let mut b = Bits::new();
    encode_into(&mut b, code, n, e, true);
    b
}

/// Length of the reference codeword without materialising it (unary parts can be huge).
pub fn ref_len(code: Code, n: u64) -> u128 {
    let nn = n as u128 + 1;
    match code {
        Code::Unary => n as u128 + 1,
        Code::Gamma => 2 * ilog2(nn) as u128 + 1,
        Code::Delta => {
            let l = ilog2(nn);
            l as u128 + ref_len(Code::Gamma, l as u64)
        }
        Code::Omega => {
            fn rec(x: u128) -> u128 {
                if x <= 1 {
                    0
                } else {
                    let l = ilog2(x);
                    rec(l as u128) + l as u128 + 1
                }
            }
            rec(nn) + 1
        }
        Code::Zeta(k) => {
            let h = ilog2(nn) / k;
            let lo = 1u128 << (h * k);
            let bound = zeta_bound(h, k, true).unwrap();
            h as u128 + 1 + len_minbin(nn - lo, bound) as u128
        }
        Code::Pi(k) => {
            let l = ilog2(nn);
            ref_len(Code::Rice(k), l as u64) + l as u128
        }
        Code::Rice(k) => (n >> k) as u128 + 1 + k as u128,
        Code::Golomb(b) => (n / b) as u128 + 1 + len_minbin((n % b) as u128, b as u128) as u128,
        Code::ExpGolomb(k) => ref_len(Code::Gamma, n >> k) + k as u128,
        Code::MinBin(u) => len_minbin(n as u128, u as u128) as u128,
        Code::VByteBe | Code::VByteLe => 8 * vbyte_groups(n).len() as u128,
    }
}

macro_rules! tri {
    ($e:expr) => {
        match $e {
            Dec::Ok(v, l) => (v, l),
            Dec::Eof => return Dec::Eof,
            Dec::Infinite => return Dec::Infinite,
            Dec::Invalid => return Dec::Invalid,
        }
    };
}

fn fld(b: &Bits, pos: usize, n: usize, e: End, zx: bool) -> Dec<u128> {
    match b.field(pos, n, e, zx) {
        Some(v) => Dec::Ok(v, n),
        None => Dec::Eof,
    }
}

/// Reference decoder.  Values must lie in the code's domain (<= 2^64-2 for the
/// universal codes) else Invalid.
pub fn decode(b: &Bits, pos: usize, code: Code, e: End, zx: bool) -> Dec<u64> {
    const MAXN: u128 = u64::MAX as u128; // n+1 <= 2^64-1
    match code {
        Code::Unary => b.unary_at(pos, zx),
        Code::Gamma => {
            let (l, c0) = tri!(b.unary_at(pos, zx));
            if l > 63 {
                return Dec::Invalid;
            }
            let (f, c1) = tri!(fld(b, pos + c0, l as usize, e, zx));
            let nn = (1u128 << l) + f;
            if nn > MAXN {
                return Dec::Invalid;
            }
            Dec::Ok((nn - 1) as u64, c0 + c1)
        }
        Code::Delta => {
            let (l, c0) = tri!(decode(b, pos, Code::Gamma, e, zx));
            if l > 63 {
                return Dec::Invalid;
            }
            let (f, c1) = tri!(fld(b, pos + c0, l as usize, e, zx));
            let nn = (1u128 << l) + f;
            if nn > MAXN {
                return Dec::Invalid;
            }
            Dec::Ok((nn - 1) as u64, c0 + c1)
        }
        Code::Omega => {
            let mut n: u128 = 1;
            let mut p = pos;
            loop {
                let (bit, _) = tri!(fld(b, p, 1, e, zx));
                if bit == 0 {
                    if n > MAXN {
                        return Dec::Invalid;
                    }
                    return Dec::Ok((n - 1) as u64, p + 1 - pos);
                }
                let l = n;
                if l > 63 {
                    return Dec::Invalid;
                }
                let (blk, c) = tri!(fld(b, p, l as usize + 1, e, zx));
                n = match e {
                    End::BE => blk,
                    End::LE => (blk >> 1) | (1u128 << l),
                };
                // a block must start with a one (BE: top bit; LE: rotated -> low bit, already checked)
                if (n >> l) & 1 != 1 {
                    return Dec::Invalid;
                }
                p += c;
            }
        }
        Code::Zeta(k) => {
            let (h, c0) = tri!(b.unary_at(pos, zx));
            if h as u128 * k as u128 > 63 {
                return Dec::Invalid;
            }
            let h = h as u32;
            let lo = 1u128 << (h * k);
            let bound = match zeta_bound(h, k, true) {
                Some(x) => x,
                None => return Dec::Invalid,
            };
            let (x, c1) = tri!(dec_minbin(b, pos + c0, bound, e, zx));
            let nn = lo + x;
            if nn > MAXN {
                return Dec::Invalid;
            }
            Dec::Ok((nn - 1) as u64, c0 + c1)
        }
        Code::Pi(k) => {
            let (l, c0) = tri!(decode(b, pos, Code::Rice(k), e, zx));
            if l > 63 {
                return Dec::Invalid;
            }
            let (f, c1) = tri!(fld(b, pos + c0, l as usize, e, zx));
            let nn = (1u128 << l) + f;
            if nn > MAXN {
                return Dec::Invalid;
            }
            Dec::Ok((nn - 1) as u64, c0 + c1)
        }
        Code::Rice(k) => {
            let (q, c0) = tri!(b.unary_at(pos, zx));
            if ((q as u128) << k) > u64::MAX as u128 {
                return Dec::Invalid;
            }
            let (f, c1) = tri!(fld(b, pos + c0, k as usize, e, zx));
            let v = ((q as u128) << k) + f;
            if v > u64::MAX as u128 {
                return Dec::Invalid;
            }
            Dec::Ok(v as u64, c0 + c1)
        }
        Code::Golomb(bb) => {
            let (q, c0) = tri!(b.unary_at(pos, zx));
            // a quotient that already puts the value beyond 64 bits is not the prefix of any codeword
            // of the domain, whatever follows (or fails to follow) it
            if q as u128 * bb as u128 > u64::MAX as u128 {
                return Dec::Invalid;
            }
            let (r, c1) = tri!(dec_minbin(b, pos + c0, bb as u128, e, zx));
            let v = q as u128 * bb as u128 + r;
            if v > u64::MAX as u128 {
                return Dec::Invalid;
            }
            Dec::Ok(v as u64, c0 + c1)
        }
        Code::ExpGolomb(k) => {
            let (g, c0) = tri!(decode(b, pos, Code::Gamma, e, zx));
            if ((g as u128) << k) > u64::MAX as u128 {
                return Dec::Invalid;
            }
            let (f, c1) = tri!(fld(b, pos + c0, k as usize, e, zx));
            let v = ((g as u128) << k) + f;
            if v > u64::MAX as u128 {
                return Dec::Invalid;
            }
            Dec::Ok(v as u64, c0 + c1)
        }
        Code::MinBin(u) => {
            let (x, c) = tri!(dec_minbin(b, pos, u as u128, e, zx));
            Dec::Ok(x as u64, c)
        }
        Code::VByteBe | Code::VByteLe => {
            let big = code == Code::VByteBe;
            let mut groups: Vec<u8> = Vec::new();
            let mut p = pos;
            loop {
                let (byte, c) = tri!(fld(b, p, 8, e, zx));
                p += c;
                groups.push((byte & 0x7f) as u8);
                if byte & 0x80 == 0 {
                    break;
                }
                // a run of continuation bytes whose SMALLEST completion (one more byte, terminal, group 0)
                // already exceeds 64 bits is not the prefix of any codeword of the domain, whatever
                // follows or fails to follow (ten continuation bytes always are such a run)
                let j = groups.len() as u32;
                if j >= 10 {
                    return Dec::Invalid;
                }
                let mut m: u128 = 0;
                if big {
                    for g in &groups {
                        m = (m << 7) | *g as u128;
                    }
                    m <<= 7;
                } else {
                    for g in groups.iter().rev() {
                        m = (m << 7) | *g as u128;
                    }
                }
                let mut off: u128 = 0;
                for i in 1..=j {
                    off += 1u128 << (7 * i);
                }
                if m + off > u64::MAX as u128 {
                    return Dec::Invalid;
                }
            }
            let l = groups.len() as u32;
            if !big {
                groups.reverse();
            }
            let mut m: u128 = 0;
            for g in &groups {
                m = (m << 7) | *g as u128;
            }
            let mut off: u128 = 0;
            for i in 1..l {
                off += 1u128 << (7 * i);
            }
            let v = m + off;
            if v > u64::MAX as u128 {
                return Dec::Invalid;
            }
            Dec::Ok(v as u64, p - pos)
        }
    }
}

#[cfg(test)]
mod tests {
    use super::*;
    #[test]
    fn doc_table() {
        // src/codes/mod.rs:16-25
        let g = ["1", "010", "011", "00100", "00101", "00110", "00111", "0001000"];
        let d = ["1", "0100", "0101", "01100", "01101", "01110", "01111", "00100000"];
        for i in 0..8u64 {
            assert_eq!(encode(Code::Gamma, i, End::BE).to_string01(), g[i as usize]);
            assert_eq!(encode(Code::Delta, i, End::BE).to_string01(), d[i as usize]);
        }
        assert_eq!(encode(Code::Omega, 10, End::BE).to_string01(), "1110110");
        let le: String = encode(Code::Omega, 10, End::LE).to_string01().chars().rev().collect();
        assert_eq!(le, "0011111");
        assert_eq!(encode(Code::Gamma, 4, End::LE).to_string01().chars().rev().collect::<String>(), "01100");
    }
    #[test]
    fn roundtrip_small() {
        let codes = [
            Code::Unary, Code::Gamma, Code::Delta, Code::Omega, Code::Zeta(1), Code::Zeta(2), Code::Zeta(3), Code::Zeta(7),
            Code::Pi(0), Code::Pi(2), Code::Rice(0), Code::Rice(3), Code::Golomb(1), Code::Golomb(3), Code::Golomb(7), Code::Golomb(8),
            Code::ExpGolomb(0), Code::ExpGolomb(2), Code::VByteBe, Code::VByteLe,
        ];
        for c in codes {
            for e in End::BOTH {
                for n in 0..3000u64 {
                    let b = encode(c, n, e);
                    assert_eq!(b.len() as u128, ref_len(c, n));
                    assert_eq!(decode(&b, 0, c, e, false), Dec::Ok(n, b.len()), "{:?} {:?} {}", c, e, n);
                }
            }
        }
    }
}
