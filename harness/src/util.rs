use std::any::Any;

/// Payload of the intentional panic used to stop a library loop that exceeded its call budget.
pub struct Budget;

pub fn panic_msg(p: &Box<dyn Any + Send>) -> String {
    if p.downcast_ref::<Budget>().is_some() {
        return "call budget exhausted".into();
    }
    if let Some(s) = p.downcast_ref::<&str>() {
        s.to_string()
    } else if let Some(s) = p.downcast_ref::<String>() {
        s.clone()
    } else {
        "<non-string panic>".into()
    }
}

pub fn hex(b: &[u8]) -> String {
    let mut s = String::with_capacity(b.len() * 2);
    for x in b {
        s.push_str(&format!("{:02x}", x));
    }
    s
}

pub fn unhex(s: &str) -> Vec<u8> {
    (0..s.len() / 2).map(|i| u8::from_str_radix(&s[2 * i..2 * i + 2], 16).unwrap()).collect()
}

/// splitmix64: the only pseudo-random source of the harness (seeded, deterministic)
#[derive(Clone)]
pub struct Rng(pub u64);
impl Rng {
    pub fn new(seed: u64) -> Self {
        Rng(seed.wrapping_mul(0x9E37_79B9_7F4A_7C15).wrapping_add(0x1234_5678_9ABC_DEF1))
    }
    pub fn next(&mut self) -> u64 {
        self.0 = self.0.wrapping_add(0x9E37_79B9_7F4A_7C15);
        let mut z = self.0;
        z = (z ^ (z >> 30)).wrapping_mul(0xBF58_476D_1CE4_E5B9);
        z = (z ^ (z >> 27)).wrapping_mul(0x94D0_49BB_1331_11EB);
        z ^ (z >> 31)
    }
    pub fn below(&mut self, n: u64) -> u64 {
        self.next() % n
    }
}

pub fn fnv(s: &[u8]) -> u64 {
    let mut h: u64 = 0xcbf29ce484222325;
    for &b in s {
        h ^= b as u64;
        h = h.wrapping_mul(0x100000001b3);
    }
    h
}

/// Redirect the process's stderr to /dev/null (library diagnostics and Dbg wrappers
/// print there); returns nothing, cannot be undone.
pub fn silence_stderr() {
    unsafe {
        let fd = libc::open(b"/dev/null\0".as_ptr() as *const libc::c_char, libc::O_WRONLY);
        if fd >= 0 {
            libc::dup2(fd, 2);
            libc::close(fd);
        }
    }
}

/// tiny glob: '*' matches any substring
pub fn glob(pat: &str, s: &str) -> bool {
    let parts: Vec<&str> = pat.split('*').collect();
    if parts.len() == 1 {
        return pat == s;
    }
    let mut pos = 0usize;
    for (i, p) in parts.iter().enumerate() {
        if i == 0 {
            if !s.starts_with(p) {
                return false;
            }
            pos = p.len();
        } else if i == parts.len() - 1 {
            return s.len() >= pos + p.len() && s[pos..].ends_with(p);
        } else {
            match s[pos..].find(p) {
                Some(k) => pos += k + p.len(),
                None => return false,
            }
        }
    }
    true
}


thread_local! {
    /// start address (mod 8) of the byte slices handed to the std::io views; None = derived from the length
    pub static IO_ALIGN: std::cell::Cell<Option<u8>> = const { std::cell::Cell::new(None) };
}

pub fn io_align() -> Option<u8> {
    IO_ALIGN.with(|c| c.get())
}

pub fn set_io_align(a: Option<u8>) {
    IO_ALIGN.with(|c| c.set(a));
}

/// A byte buffer whose first byte sits at a chosen address modulo 8 (the std::io views receive
/// caller-owned slices, and an implementation may treat the aligned middle of a slice specially).
pub struct AlignedBytes {
    store: Vec<u64>,
    off: usize,
    len: usize,
}

impl AlignedBytes {
    pub fn new(len: usize, fill: u8) -> Self {
        let off = io_align().map(|a| a as usize % 8).unwrap_or((len * 3 + 1) % 8);
        let store = vec![u64::from_ne_bytes([fill; 8]); (off + len).div_ceil(8) + 1];
        AlignedBytes { store, off, len }
    }
    pub fn from(bytes: &[u8]) -> Self {
        let mut a = Self::new(bytes.len(), 0);
        a.as_mut_slice().copy_from_slice(bytes);
        a
    }
    pub fn as_slice(&self) -> &[u8] {
        let (_, b, _) = unsafe { self.store.align_to::<u8>() };
        &b[self.off..self.off + self.len]
    }
    pub fn as_mut_slice(&mut self) -> &mut [u8] {
        let (off, len) = (self.off, self.len);
        let (_, b, _) = unsafe { self.store.align_to_mut::<u8>() };
        &mut b[off..off + len]
    }
}
