//! Violations, coverage accounting, known findings, evidence files, verdict lines.

use serde::{Deserialize, Serialize};
use serde_json::{json, Value};
use std::collections::{BTreeMap, BTreeSet};

#[derive(Serialize, Deserialize, Clone, Debug)]
pub struct Violation {
    pub property: String,
    /// which explored system ("reader", "writer", "grid:<name>", ...)
    pub system: String,
    /// configuration id, e.g. "BE/buf8/memzx"
    pub config: String,
    /// operation class, e.g. "gamma_table", "copy_to"
    pub op_class: String,
    /// "value" | "position" | "bytes" | "panic" | "error" | "no-error" | "hang" | "length" | "counter" ...
    pub symptom: String,
    pub detail: String,
    /// self-contained replay recipe understood by `dsiv replay`
    pub replay: Value,
}

impl Violation {
    pub fn sig(&self) -> String {
        format!("{}|{}|{}|{}|{}", self.property, self.system, self.config, self.op_class, self.symptom)
    }
}

#[derive(Deserialize, Clone, Debug)]
pub struct Finding {
    pub property: String,
    /// "known" (suppresses, prints KNOWN-FINDING) or "fixed" (suppresses nothing)
    pub status: String,
    #[serde(default)]
    pub system: String,
    #[serde(default)]
    pub config: String,
    #[serde(default)]
    pub op_class: String,
    #[serde(default)]
    pub symptom: String,
    #[serde(default)]
    pub detail: String,
    pub what: String,
    #[serde(default)]
    pub commit: String,
}

impl Finding {
    pub fn matches(&self, v: &Violation) -> bool {
        use crate::util::glob;
        let m = |p: &str, s: &str| p.is_empty() || glob(p, s);
        self.status == "known"
            && self.property == v.property
            && m(&self.system, &v.system)
            && m(&self.config, &v.config)
            && m(&self.op_class, &v.op_class)
            && m(&self.symptom, &v.symptom)
            && m(&self.detail, &v.detail)
    }
}

pub fn load_findings(path: &str) -> Vec<Finding> {
    match std::fs::read_to_string(path) {
        Ok(s) => {
            let v: Value = serde_json::from_str(&s).expect("KNOWN_FINDINGS.json is not valid JSON");
            let arr = v.get("findings").cloned().unwrap_or(json!([]));
            serde_json::from_value(arr).expect("KNOWN_FINDINGS.json: bad entry")
        }
        Err(_) => vec![],
    }
}

/// Coverage accumulator; merged across worker threads and shard processes.
#[derive(Default, Clone, Serialize, Deserialize)]
pub struct Cov {
    pub states: u64,
    pub transitions: u64,
    pub evaluations: u64,
    pub nontrivial: u64,
    pub traces_validated: u64,
    pub max_depth: u64,
    pub samples: Vec<Value>,
    /// per operation class: set of (hashes of) distinct observations
    pub obs: BTreeMap<String, BTreeSet<u64>>,
    /// per operation class: number of transitions
    pub per_class: BTreeMap<String, u64>,
    pub caps_hit: Vec<String>,
    pub notes: Vec<String>,
    pub configs: BTreeSet<String>,
    pub extra: BTreeMap<String, Value>,
    pub exhaustive: bool,
}

impl Cov {
    pub fn new() -> Self {
        Cov { exhaustive: true, ..Default::default() }
    }
    pub fn merge(&mut self, o: Cov) {
        self.states += o.states;
        self.transitions += o.transitions;
        self.evaluations += o.evaluations;
        self.nontrivial += o.nontrivial;
        self.traces_validated += o.traces_validated;
        self.max_depth = self.max_depth.max(o.max_depth);
        for s in o.samples {
            if self.samples.len() < 12 {
                self.samples.push(s);
            }
        }
        for (k, v) in o.obs {
            self.obs.entry(k).or_default().extend(v);
        }
        for (k, v) in o.per_class {
            *self.per_class.entry(k).or_default() += v;
        }
        self.caps_hit.extend(o.caps_hit);
        for n in o.notes {
            if !self.notes.contains(&n) {
                self.notes.push(n);
            }
        }
        self.configs.extend(o.configs);
        for (k, v) in o.extra {
            // numeric extras add up, everything else: last wins
            match (self.extra.get(&k).and_then(|x| x.as_u64()), v.as_u64()) {
                (Some(a), Some(b)) => {
                    self.extra.insert(k, json!(a + b));
                }
                _ => {
                    self.extra.insert(k, v);
                }
            }
        }
        self.exhaustive &= o.exhaustive;
    }
    pub fn sample(&mut self, v: Value) {
        if self.samples.len() < 4 {
            self.samples.push(v);
        }
    }
    pub fn observe(&mut self, class: &str, obs_hash: u64) {
        *self.per_class.entry(class.to_string()).or_default() += 1;
        let s = self.obs.entry(class.to_string()).or_default();
        if s.len() < 4096 {
            s.insert(obs_hash);
        }
    }
    pub fn add_extra(&mut self, k: &str, n: u64) {
        let cur = self.extra.get(k).and_then(|x| x.as_u64()).unwrap_or(0);
        self.extra.insert(k.to_string(), json!(cur + n));
    }
}

#[derive(Serialize, Deserialize)]
pub struct Outcome {
    pub cov: Cov,
    pub violations: Vec<Violation>,
}

impl Outcome {
    pub fn new() -> Self {
        Outcome { cov: Cov::new(), violations: vec![] }
    }
    pub fn merge(&mut self, o: Outcome) {
        self.cov.merge(o.cov);
        self.violations.extend(o.violations);
    }
}

#[derive(Serialize, Deserialize, Clone)]
pub struct CheckMeta {
    pub property: String,
    pub level: String,
    pub rule: String,
    pub assumptions: Vec<String>,
}

/// Write evidence, replays and print verdict lines.  Returns the process exit code.
pub fn finish(meta: &CheckMeta, tier: &str, seed: u64, out: Outcome, wall_s: f64, verif_dir: &str) -> i32 {
    let findings = load_findings(&format!("{}/KNOWN_FINDINGS.json", verif_dir));
    let mut by_sig: BTreeMap<String, (Violation, u64)> = BTreeMap::new();
    for v in out.violations {
        by_sig.entry(v.sig()).and_modify(|e| e.1 += 1).or_insert((v, 1));
    }
    let mut known_hits: BTreeMap<String, u64> = BTreeMap::new();
    let mut unlisted: Vec<(Violation, u64)> = vec![];
    for (_, (v, c)) in by_sig {
        if let Some(f) = findings.iter().find(|f| f.matches(&v)) {
            *known_hits.entry(f.what.clone()).or_default() += c;
        } else {
            unlisted.push((v, c));
        }
    }
    let _ = std::fs::create_dir_all(format!("{}/replays", verif_dir));
    let _ = std::fs::create_dir_all(format!("{}/evidence", verif_dir));
    for (what, c) in &known_hits {
        println!("KNOWN-FINDING: property={} {} ({} occurrences in this run)", meta.property, what, c);
    }
    // print one representative of every (system, op class, symptom) group first
    {
        let mut seen = std::collections::BTreeSet::new();
        let mut first = vec![];
        let mut rest = vec![];
        for x in unlisted.drain(..) {
            let g = format!("{}|{}|{}", x.0.system.split(':').next().unwrap_or(""), x.0.op_class, x.0.symptom);
            if seen.insert(g) {
                first.push(x);
            } else {
                rest.push(x);
            }
        }
        first.extend(rest);
        unlisted = first;
    }
    if unlisted.len() > 1 {
        let mut groups: BTreeMap<String, u64> = BTreeMap::new();
        for (v, c) in &unlisted {
            *groups.entry(format!("{} / {} / {} / {}", v.system.split(':').next().unwrap_or(""), v.config, v.op_class, v.symptom)).or_default() += c;
        }
        println!("violation groups (system / config / op class / symptom : occurrences):");
        for (g, c) in groups.iter().take(200) {
            println!("  {} : {}", g, c);
        }
    }
    let mut n = 0;
    for (v, c) in &unlisted {
        n += 1;
        if n > 40 {
            println!("... {} further distinct violation signatures not printed", unlisted.len() - 40);
            break;
        }
        let path = format!("{}/replays/{}-{}.json", verif_dir, meta.property, n);
        let mut doc = serde_json::to_value(v).unwrap();
        doc["occurrences"] = json!(c);
        std::fs::write(&path, serde_json::to_string_pretty(&doc).unwrap()).expect("write replay");
        println!("VIOLATION property={} replay={}", meta.property, path);
        println!("  [{} / {} / {} / {}] x{}: {}", v.system, v.config, v.op_class, v.symptom, c, v.detail);
    }
    let cov = &out.cov;
    let vacuous: Vec<String> = cov
        .obs
        .iter()
        .filter(|(k, s)| s.len() <= 1 && cov.per_class.get(*k).copied().unwrap_or(0) > 1)
        .map(|(k, _)| k.clone())
        .collect();
    let obs_counts: BTreeMap<String, Value> = cov
        .obs
        .iter()
        .map(|(k, s)| (k.clone(), json!({"transitions": cov.per_class.get(k).copied().unwrap_or(0), "distinct_observations": s.len()})))
        .collect();
    let mut coverage = json!({
        "states": cov.states,
        "transitions": cov.transitions,
        "traces_validated_against_impl": cov.traces_validated,
        "evaluations": cov.evaluations.max(cov.transitions),
        "distinct_nontrivial": cov.nontrivial,
        "rule": meta.rule,
        "samples": cov.samples,
        "max_depth": cov.max_depth,
        "per_operation_class": obs_counts,
        "possibly_vacuous_classes": vacuous,
        "caps_hit": cov.caps_hit,
        "configurations": cov.configs.len(),
        "configuration_ids": cov.configs.iter().take(400).collect::<Vec<_>>(),
        "notes": cov.notes,
        "exhaustive": cov.exhaustive && cov.caps_hit.is_empty(),
        "known_findings_hit": known_hits,
    });
    for (k, v) in &cov.extra {
        coverage[k] = v.clone();
    }
    if cov.states == 0 {
        // not a state-space check: drop the model-checking keys so the generic rule applies
        let o = coverage.as_object_mut().unwrap();
        o.remove("states");
        o.remove("transitions");
        o.remove("traces_validated_against_impl");
        o.remove("max_depth");
    }
    let ev = json!({
        "property_id": meta.property,
        "tier": tier,
        "seed": seed,
        "level": meta.level,
        "coverage": coverage,
        "assumptions": meta.assumptions,
        "wall_s": wall_s,
        "violations": unlisted.len(),
    });
    std::fs::write(format!("{}/evidence/{}.json", verif_dir, meta.property), serde_json::to_string_pretty(&ev).unwrap()).expect("write evidence");
    println!(
        "{} {}: states={} transitions={} evaluations={} nontrivial={} configs={} validated={} wall={:.1}s violations={} known={}",
        meta.property,
        tier,
        cov.states,
        cov.transitions,
        cov.evaluations,
        cov.nontrivial,
        cov.configs.len(),
        cov.traces_validated,
        wall_s,
        unlisted.len(),
        known_hits.len()
    );
    if unlisted.is_empty() {
        0
    } else {
        1
    }
}
