//! Reader systems: one object-safe adapter (`Rd`) in front of every concrete
//! reader type of the library, so engines and oracles are compiled once.

use crate::model::{Code, End};
use common_traits::CastableInto;
use dsi_bitstream::prelude::*;
use serde::{Deserialize, Serialize};
use std::fmt::Debug;
use std::panic::{catch_unwind, AssertUnwindSafe};
use std::rc::Rc;

#[derive(Clone, Debug, PartialEq, Eq, Hash, PartialOrd, Ord, Serialize, Deserialize)]
pub enum ROp {
    ReadBits(u8),
    /// peek_bits(n) issued twice; both results are reported
    Peek(u8),
    Skip(u16),
    Unary,
    GammaP(bool),
    DeltaP(bool, bool),
    Zeta3P(bool),
    GammaD,
    DeltaD,
    Zeta3D,
    /// parameterless-trait read_zeta(k)
    ZetaD(u32),
    /// read_zeta_param(k)
    ZetaP(u32),
    Omega,
    Pi(u32),
    Rice(u32),
    Golomb(u64),
    ExpGolomb(u32),
    MinBin(u64),
    VByteBe,
    VByteLe,
    IoRead(u16),
    /// std::io::Read::read_exact
    IoReadExact(u16),
    /// std::io::Read::read_vectored into three adjacent slices of these lengths (one call)
    IoReadVec(u16, u16, u16),
    SetPos(u64),
    /// copy n bits into a fresh BufBitWriter over `wd`-bit words that already holds
    /// `prefill` bits; `from` selects dst.copy_from(src) instead of src.copy_to(dst)
    Copy { n: u32, wd: u8, prefill: u8, from: bool },
    /// read through a dispatcher (C10): kind 0=Codes dyn, 1=Codes static, 2=FuncCodeReader,
    /// 3=Factory get(), 4=StatsWrapper<Codes>, 5=ConstCode (id looked up from code)
    Disp { kind: u8, code: Code },
}

impl ROp {
    pub fn class(&self) -> &'static str {
        match self {
            ROp::ReadBits(_) => "read_bits",
            ROp::Peek(_) => "peek_bits",
            ROp::Skip(_) => "skip_bits",
            ROp::Unary => "read_unary",
            ROp::GammaP(false) => "gamma_notable",
            ROp::GammaP(true) => "gamma_table",
            ROp::DeltaP(false, false) => "delta_notable",
            ROp::DeltaP(..) => "delta_table",
            ROp::Zeta3P(false) => "zeta3_notable",
            ROp::Zeta3P(true) => "zeta3_table",
            ROp::GammaD => "gamma_default",
            ROp::DeltaD => "delta_default",
            ROp::Zeta3D => "zeta3_default",
            ROp::ZetaD(_) | ROp::ZetaP(_) => "zeta",
            ROp::Omega => "omega",
            ROp::Pi(_) => "pi",
            ROp::Rice(_) => "rice",
            ROp::Golomb(_) => "golomb",
            ROp::ExpGolomb(_) => "exp_golomb",
            ROp::MinBin(_) => "minimal_binary",
            ROp::VByteBe | ROp::VByteLe => "vbyte",
            ROp::IoRead(_) => "io_read",
            ROp::IoReadExact(_) => "io_read_exact",
            ROp::IoReadVec(..) => "io_read_vectored",
            ROp::SetPos(_) => "set_bit_pos",
            ROp::Copy { from: false, .. } => "copy_to",
            ROp::Copy { from: true, .. } => "copy_from",
            ROp::Disp { .. } => "dispatch_read",
        }
    }
    /// which decode tables the operation consults: [gamma, delta, zeta3]
    pub fn tables(&self) -> [bool; 3] {
        match self {
            ROp::GammaP(t) => [*t, false, false],
            ROp::DeltaP(d, g) => [*g, *d, false],
            ROp::Zeta3P(t) => [false, false, *t],
            ROp::DeltaD => [true, false, false],
            ROp::Zeta3D => [false, false, true],
            ROp::ExpGolomb(_) => [false, false, false], // read_gamma default: no table
            ROp::Disp { code, .. } => match code {
                Code::Delta => [true, false, false],
                Code::Zeta(3) => [false, false, true],
                _ => [false, false, false],
            },
            _ => [false, false, false],
        }
    }
}

#[derive(Clone, Debug, PartialEq, Eq, Hash, Serialize, Deserialize)]
pub enum RObs {
    Val(u64),
    Peek(u64, u64),
    Unit,
    Bytes(Vec<u8>, usize),
    Copy(Vec<u8>),
    Err,
    Panic(String),
    Unsupported,
    /// a failed copy left the destination's earlier content changed
    Damaged(String),
}

#[derive(Clone, Debug)]
pub struct RdInfo {
    pub e: End,
    /// "buf8".."buf64", "unbuf"
    pub kind: &'static str,
    pub backend: &'static str,
    pub wrapper: &'static str,
    pub word_bits: usize,
    pub peek_max: usize,
    pub zx: bool,
    pub seek: bool,
    pub io: bool,
    pub copy: bool,
    pub counter: bool,
    /// bits consumed from the inner reader before the wrapper was created (wrapper "count+pre")
    pub pre: usize,
    /// byte stream with a partial trailing word: the adapter's documentation requires padding, so
    /// only values and errors are checked there, not the positions reported after touching the tail
    pub ragged: bool,
}

impl RdInfo {
    pub fn id(&self) -> String {
        let w = if self.wrapper.is_empty() { String::new() } else { format!("/{}", self.wrapper) };
        format!("{}/{}/{}{}", self.e.name(), self.kind, self.backend, w)
    }
}

pub trait Rd {
    fn key(&self) -> String;
    fn fork(&self) -> Box<dyn Rd>;
    fn apply(&mut self, op: &ROp) -> RObs;
    fn bit_pos(&mut self) -> Option<Result<u64, String>>;
    fn counter(&self) -> Option<u64>;
    fn info(&self) -> &RdInfo;
}

pub struct Caps<R> {
    pub clone: Option<fn(&R) -> R>,
    pub io_read: Option<fn(&mut R, &mut [u8]) -> std::io::Result<usize>>,
    pub bit_pos: Option<fn(&mut R) -> Result<u64, String>>,
    pub set_bit_pos: Option<fn(&mut R, u64) -> Result<(), String>>,
    pub copy: Option<fn(&mut R, u64, u8, u8, bool) -> Result<Vec<u8>, String>>,
    pub counter: Option<fn(&R) -> u64>,
    pub disp: Option<fn(&mut R, u8, Code) -> Option<Result<u64, String>>>,
}

impl<R> Clone for Caps<R> {
    fn clone(&self) -> Self {
        Caps {
            clone: self.clone,
            io_read: self.io_read,
            bit_pos: self.bit_pos,
            set_bit_pos: self.set_bit_pos,
            copy: self.copy,
            counter: self.counter,
            disp: self.disp,
        }
    }
}

pub struct Holder<E: Endianness, R> {
    pub r: R,
    pub caps: Caps<R>,
    pub info: Rc<RdInfo>,
    pub _e: std::marker::PhantomData<E>,
}

fn res<T, Er>(r: Result<T, Er>) -> Result<T, ()> {
    r.map_err(|_| ())
}

impl<E: Endianness + 'static, R: CodesRead<E> + Debug + 'static> Holder<E, R> {
    fn run(&mut self, op: &ROp) -> RObs {
        let r = &mut self.r;
        let v = |x: Result<u64, ()>| match x {
            Ok(v) => RObs::Val(v),
            Err(_) => RObs::Err,
        };
        match op {
            ROp::ReadBits(n) => v(res(r.read_bits(*n as usize))),
            ROp::Peek(n) => {
                let a = r.peek_bits(*n as usize);
                let a: u64 = match a {
                    Ok(x) => x.cast(),
                    Err(_) => return RObs::Err,
                };
                let b: u64 = match r.peek_bits(*n as usize) {
                    Ok(x) => x.cast(),
                    Err(_) => return RObs::Err,
                };
                RObs::Peek(a, b)
            }
            ROp::Skip(n) => match r.skip_bits(*n as usize) {
                Ok(()) => RObs::Unit,
                Err(_) => RObs::Err,
            },
            ROp::Unary => v(res(r.read_unary())),
            ROp::GammaP(false) => v(res(r.read_gamma_param::<false>())),
            ROp::GammaP(true) => v(res(r.read_gamma_param::<true>())),
            ROp::DeltaP(false, false) => v(res(r.read_delta_param::<false, false>())),
            ROp::DeltaP(false, true) => v(res(r.read_delta_param::<false, true>())),
            ROp::DeltaP(true, false) => v(res(r.read_delta_param::<true, false>())),
            ROp::DeltaP(true, true) => v(res(r.read_delta_param::<true, true>())),
            ROp::Zeta3P(false) => v(res(r.read_zeta3_param::<false>())),
            ROp::Zeta3P(true) => v(res(r.read_zeta3_param::<true>())),
            ROp::GammaD => v(res(r.read_gamma())),
            ROp::DeltaD => v(res(r.read_delta())),
            ROp::Zeta3D => v(res(r.read_zeta3())),
            ROp::ZetaD(k) => v(res(r.read_zeta(*k as usize))),
            ROp::ZetaP(k) => v(res(r.read_zeta_param(*k as usize))),
            ROp::Omega => v(res(r.read_omega())),
            ROp::Pi(k) => v(res(r.read_pi(*k as usize))),
            ROp::Rice(k) => v(res(r.read_rice(*k as usize))),
            ROp::Golomb(b) => v(res(r.read_golomb(*b))),
            ROp::ExpGolomb(k) => v(res(r.read_exp_golomb(*k as usize))),
            ROp::MinBin(u) => v(res(r.read_minimal_binary(*u))),
            ROp::VByteBe => v(res(r.read_vbyte_be())),
            ROp::VByteLe => v(res(r.read_vbyte_le())),
            ROp::IoRead(len) => match self.caps.io_read {
                None => RObs::Unsupported,
                Some(f) => {
                    let mut ab = crate::util::AlignedBytes::new(*len as usize, 0xEE);
                    match f(r, ab.as_mut_slice()) {
                        Ok(c) => RObs::Bytes(ab.as_slice().to_vec(), c),
                        Err(_) => RObs::Err,
                    }
                }
            },
            ROp::IoReadExact(len) => match self.caps.io_read {
                None => RObs::Unsupported,
                Some(f) => {
                    let mut ab = crate::util::AlignedBytes::new(*len as usize, 0xEE);
                    IO_MODE.with(|m| m.set(1));
                    let r = f(r, ab.as_mut_slice());
                    IO_MODE.with(|m| m.set(0));
                    match r {
                        Ok(c) => RObs::Bytes(ab.as_slice().to_vec(), c),
                        Err(_) => RObs::Err,
                    }
                }
            },
            ROp::IoReadVec(a, b, c) => match self.caps.io_read {
                None => RObs::Unsupported,
                Some(f) => {
                    let total = (*a + *b + *c) as usize;
                    let mut ab = crate::util::AlignedBytes::new(total, 0xEE);
                    IO_MODE.with(|m| m.set(2));
                    IO_SPLIT.with(|s| s.set((*a as usize, (*a + *b) as usize)));
                    let r = f(r, ab.as_mut_slice());
                    IO_MODE.with(|m| m.set(0));
                    match r {
                        Ok(n) => RObs::Bytes(ab.as_slice().to_vec(), n),
                        Err(_) => RObs::Err,
                    }
                }
            },
            ROp::SetPos(p) => match self.caps.set_bit_pos {
                None => RObs::Unsupported,
                Some(f) => match f(r, *p) {
                    Ok(()) => RObs::Unit,
                    Err(_) => RObs::Err,
                },
            },
            ROp::Copy { n, wd, prefill, from } => match self.caps.copy {
                None => RObs::Unsupported,
                Some(f) => match f(r, *n as u64, *wd, *prefill, *from) {
                    Ok(b) => RObs::Copy(b),
                    Err(m) if m.starts_with(DAMAGED) => RObs::Damaged(m),
                    Err(_) => RObs::Err,
                },
            },
            ROp::Disp { kind, code } => match self.caps.disp {
                None => RObs::Unsupported,
                Some(f) => match f(r, *kind, *code) {
                    None => RObs::Unsupported,
                    Some(Ok(v)) => RObs::Val(v),
                    Some(Err(_)) => RObs::Err,
                },
            },
        }
    }
}

impl<E: Endianness + 'static, R: CodesRead<E> + Debug + 'static> Rd for Holder<E, R> {
    fn key(&self) -> String {
        format!("{:?}", self.r)
    }
    fn fork(&self) -> Box<dyn Rd> {
        let c = self.caps.clone.expect("reader is not Clone; use ReplayRd");
        Box::new(Holder::<E, R> {
            r: c(&self.r),
            caps: self.caps.clone(),
            info: self.info.clone(),
            _e: std::marker::PhantomData,
        })
    }
    fn apply(&mut self, op: &ROp) -> RObs {
        crate::watchdog::tick();
        match catch_unwind(AssertUnwindSafe(|| self.run(op))) {
            Ok(o) => o,
            Err(p) => RObs::Panic(crate::util::panic_msg(&p)),
        }
    }
    fn bit_pos(&mut self) -> Option<Result<u64, String>> {
        let f = self.caps.bit_pos?;
        match catch_unwind(AssertUnwindSafe(|| f(&mut self.r))) {
            Ok(x) => Some(x),
            Err(p) => Some(Err(format!("panic: {}", crate::util::panic_msg(&p)))),
        }
    }
    fn counter(&self) -> Option<u64> {
        self.caps.counter.map(|f| f(&self.r))
    }
    fn info(&self) -> &RdInfo {
        &self.info
    }
}

/// A reader that cannot be cloned (e.g. over BufReader): forks by rebuilding and replaying.
pub struct ReplayRd {
    pub build: Rc<dyn Fn() -> Box<dyn Rd>>,
    pub path: Vec<ROp>,
    pub inner: Box<dyn Rd>,
}

impl ReplayRd {
    pub fn new(build: Rc<dyn Fn() -> Box<dyn Rd>>) -> Self {
        let inner = build();
        ReplayRd { build, path: vec![], inner }
    }
}

impl Rd for ReplayRd {
    fn key(&self) -> String {
        self.inner.key()
    }
    fn fork(&self) -> Box<dyn Rd> {
        let mut inner = (self.build)();
        for op in &self.path {
            inner.apply(op);
        }
        Box::new(ReplayRd { build: self.build.clone(), path: self.path.clone(), inner })
    }
    fn apply(&mut self, op: &ROp) -> RObs {
        self.path.push(op.clone());
        self.inner.apply(op)
    }
    fn bit_pos(&mut self) -> Option<Result<u64, String>> {
        self.inner.bit_pos()
    }
    fn counter(&self) -> Option<u64> {
        self.inner.counter()
    }
    fn info(&self) -> &RdInfo {
        self.inner.info()
    }
}

// ---------------------------------------------------------------------------
// helpers instantiated at concrete types

pub fn words_from_bytes<W: Word>(bytes: &[u8]) -> Vec<W>
where
    W::Bytes: Default + AsMut<[u8]>,
{
    use common_traits::FromBytes;
    let n = W::BYTES;
    assert!(bytes.len() % n == 0, "image not a multiple of the word size");
    bytes
        .chunks_exact(n)
        .map(|c| {
            let mut b: W::Bytes = Default::default();
            b.as_mut().copy_from_slice(c);
            <W as FromBytes>::from_ne_bytes(b)
        })
        .collect()
}

pub fn bytes_from_words<W: Word>(words: &[W]) -> Vec<u8>
where
    W::Bytes: AsRef<[u8]>,
{
    use common_traits::ToBytes;
    let mut out = Vec::with_capacity(words.len() * W::BYTES);
    for w in words {
        out.extend_from_slice(<W as ToBytes>::to_ne_bytes(*w).as_ref());
    }
    out
}

/// prefix of the error text of a failed copy that damaged earlier content of the destination
pub const DAMAGED: &str = "DESTINATION-DAMAGED: ";
pub const PREFILL_PAT: u64 = 0xA5C3_96E1_5A3C_69B7;
pub const SENTINEL: u64 = 0b1_0110_1;
pub const SENTINEL_BITS: usize = 6;

/// copy n bits from `src` into a fresh writer over W-bit words pre-filled with
/// `prefill` pattern bits, append the sentinel, return the destination bytes.
pub fn copy_case<E: Endianness, R: BitRead<E>, W: Word>(
    src: &mut R,
    n: u64,
    prefill: u8,
    from: bool,
) -> Result<Vec<u8>, String>
where
    BufBitWriter<E, MemWordWriterVec<W, Vec<W>>>: BitWrite<E>,
    W::Bytes: AsRef<[u8]>,
{
    let mut dst = BufBitWriter::<E, MemWordWriterVec<W, Vec<W>>>::new(MemWordWriterVec::new(Vec::new()));
    let pf = prefill as usize;
    if pf > 0 {
        let mut left = pf;
        while left > 0 {
            let c = left.min(64);
            let val = if c == 64 { PREFILL_PAT } else { PREFILL_PAT & ((1u64 << c) - 1) };
            dst.write_bits(val, c).map_err(|e| format!("{e}"))?;
            left -= c;
        }
    }
    let r = if from {
        dst.copy_from(src, n).map_err(|e| format!("{e}"))
    } else {
        src.copy_to(&mut dst, n).map_err(|e| format!("{e}"))
    };
    if let Err(e) = r {
        // a copy that fails (the source ran out of bits) must not damage what the destination
        // already held: finish the writer and compare the bits written before the copy
        let e_end = if E::IS_BIG { crate::model::End::BE } else { crate::model::End::LE };
        let fin = catch_unwind(AssertUnwindSafe(|| dst.into_inner().map(|inner| bytes_from_words::<W>(&inner.into_inner())).map_err(|e| format!("{e}"))));
        return match fin {
            Ok(Ok(bytes)) => {
                let got = crate::model::Bits::from_bytes(&bytes, e_end);
                let mut exp = crate::model::Bits::new();
                let mut left = pf;
                while left > 0 {
                    let c = left.min(64);
                    let val = if c == 64 { PREFILL_PAT } else { PREFILL_PAT & ((1u64 << c) - 1) };
                    exp.push_field(val as u128, c, e_end);
                    left -= c;
                }
                for i in 0..pf {
                    if got.bit(i) != exp.bit(i) {
                        return Err(format!("{}the copy failed ({}) and bit {} of the {} bits the destination held before the copy is now {:?}", DAMAGED, e, i, pf, got.bit(i)));
                    }
                }
                Err(e)
            }
            Ok(Err(fe)) => Err(format!("{}the copy failed ({}) and finishing the destination then failed too: {}", DAMAGED, e, fe)),
            Err(p) => Err(format!("{}the copy failed ({}) and finishing the destination then panicked: {}", DAMAGED, e, crate::util::panic_msg(&p))),
        };
    }
    dst.write_bits(SENTINEL, SENTINEL_BITS).map_err(|e| format!("{e}"))?;
    let inner = dst.into_inner().map_err(|e| format!("{e}"))?;
    Ok(bytes_from_words::<W>(&inner.into_inner()))
}

#[macro_export]
macro_rules! copy_fn {
    ($E:ty, $R:ty) => {{
        fn f(r: &mut $R, n: u64, wd: u8, prefill: u8, from: bool) -> Result<Vec<u8>, String> {
            match wd {
                8 => $crate::rd::copy_case::<$E, $R, u8>(r, n, prefill, from),
                16 => $crate::rd::copy_case::<$E, $R, u16>(r, n, prefill, from),
                32 => $crate::rd::copy_case::<$E, $R, u32>(r, n, prefill, from),
                64 => $crate::rd::copy_case::<$E, $R, u64>(r, n, prefill, from),
                128 => $crate::rd::copy_case::<$E, $R, u128>(r, n, prefill, from),
                _ => Err("bad wd".into()),
            }
        }
        f as fn(&mut $R, u64, u8, u8, bool) -> Result<Vec<u8>, String>
    }};
}

/// copy into 64-bit-word writers only (wrapped readers: keeps the number of monomorphised copies down)
#[macro_export]
macro_rules! copy_fn_min {
    ($E:ty, $R:ty) => {{
        fn f(r: &mut $R, n: u64, wd: u8, prefill: u8, from: bool) -> Result<Vec<u8>, String> {
            match wd {
                64 => $crate::rd::copy_case::<$E, $R, u64>(r, n, prefill, from),
                _ => Err("wrapped readers copy into 64-bit writers only".into()),
            }
        }
        f as fn(&mut $R, u64, u8, u8, bool) -> Result<Vec<u8>, String>
    }};
}

/// Standard capabilities for a plain library reader type (Clone + io::Read + BitSeek).
#[macro_export]
macro_rules! full_caps {
    ($E:ty, $R:ty, $copy:expr, $disp:expr) => {
        $crate::rd::Caps::<$R> {
            clone: Some(|r: &$R| r.clone()),
            io_read: Some(|r: &mut $R, b: &mut [u8]| $crate::rd::io_read_mode(r, b)),
            bit_pos: Some(|r: &mut $R| BitSeek::bit_pos(r).map_err(|e| format!("{e}"))),
            set_bit_pos: Some(|r: &mut $R, p: u64| BitSeek::set_bit_pos(r, p).map_err(|e| format!("{e}"))),
            copy: if $copy { Some($crate::copy_fn!($E, $R)) } else { None },
            counter: None,
            disp: $disp,
        }
    };
}

fn mk<E: Endianness + 'static, R: CodesRead<E> + Debug + 'static>(r: R, caps: Caps<R>, info: RdInfo) -> Box<dyn Rd> {
    let mut info = info;
    info.seek = caps.bit_pos.is_some();
    info.io = caps.io_read.is_some();
    info.copy = caps.copy.is_some();
    info.counter = caps.counter.is_some();
    Box::new(Holder::<E, R> { r, caps, info: Rc::new(info), _e: std::marker::PhantomData })
}

/// A seekable byte source that hands its bytes over in pieces, like a chain of readers, a pipe or a
/// small BufReader would: a read never crosses a junction (a fixed set of byte positions, so that
/// junctions fall inside and between words of every size), and the first read attempted at a
/// junction is answered with ErrorKind::Interrupted.  The behaviour is a function of the byte
/// position and one flag, so reader state spaces over it still close.
thread_local! {
    /// number of ErrorKind::Interrupted answers given by Choppy sources on this thread
    static FAULTS: std::cell::Cell<u64> = const { std::cell::Cell::new(0) };
}

/// Interrupted answers injected so far on this thread.  C11 allows an operation that met such an
/// answer to report an error (never to return wrong data), so an Err observed while this counter
/// moved is not held against the reader.
pub fn fault_count() -> u64 {
    FAULTS.with(|c| c.get())
}

#[derive(Debug, Clone)]
pub struct Choppy {
    inner: std::io::Cursor<Vec<u8>>,
    interrupted: bool,
}

impl Choppy {
    pub fn new(bytes: Vec<u8>) -> Self {
        Choppy { inner: std::io::Cursor::new(bytes), interrupted: false }
    }
    pub fn junction(p: u64) -> bool {
        if p % 7 == 0 || p % 16 == 11 {
            return true;
        }
        let (mut a, mut b) = (1u64, 2u64);
        while b < p {
            let c = a + b;
            a = b;
            b = c;
        }
        b == p || a == p
    }
}

impl std::io::Read for Choppy {
    fn read(&mut self, buf: &mut [u8]) -> std::io::Result<usize> {
        let p = self.inner.position();
        if p > 0 && Self::junction(p) && !self.interrupted {
            self.interrupted = true;
            FAULTS.with(|c| c.set(c.get() + 1));
            return Err(std::io::Error::new(std::io::ErrorKind::Interrupted, "interrupted at a junction"));
        }
        let mut n = 1usize;
        while n < buf.len() && !Self::junction(p + n as u64) {
            n += 1;
        }
        let n = n.min(buf.len());
        let r = self.inner.read(&mut buf[..n])?;
        if r > 0 {
            self.interrupted = false;
        }
        Ok(r)
    }
}

impl std::io::Seek for Choppy {
    fn seek(&mut self, pos: std::io::SeekFrom) -> std::io::Result<u64> {
        self.interrupted = false;
        self.inner.seek(pos)
    }
    fn stream_position(&mut self) -> std::io::Result<u64> {
        Ok(self.inner.position())
    }
}

thread_local! {
    /// which provided method of std::io::Read the io_read capability calls: 0 = read, 1 = read_exact,
    /// 2 = read_vectored (split points in IO_SPLIT)
    static IO_MODE: std::cell::Cell<u8> = const { std::cell::Cell::new(0) };
    static IO_SPLIT: std::cell::Cell<(usize, usize)> = const { std::cell::Cell::new((0, 0)) };
}

/// The io::Read call made on behalf of IoRead / IoReadExact / IoReadVec (selected by IO_MODE).
pub fn io_read_mode<R: std::io::Read>(r: &mut R, b: &mut [u8]) -> std::io::Result<usize> {
    match IO_MODE.with(|m| m.get()) {
        1 => r.read_exact(b).map(|_| b.len()),
        2 => {
            let (k1, k2) = IO_SPLIT.with(|s| s.get());
            let (s1, rest) = b.split_at_mut(k1);
            let (s2, s3) = rest.split_at_mut(k2 - k1);
            let mut v = [std::io::IoSliceMut::new(s1), std::io::IoSliceMut::new(s2), std::io::IoSliceMut::new(s3)];
            r.read_vectored(&mut v)
        }
        _ => r.read(b),
    }
}

pub const BACKENDS: [&str; 7] = ["memzx", "memstrict", "vec", "slice", "cursor", "bufreader", "choppy"];
pub const KINDS: [&str; 5] = ["buf8", "buf16", "buf32", "buf64", "unbuf"];
pub const WRAPPERS: [&str; 3] = ["", "count", "dbg"];

fn base_info(e: End, kind: &'static str, backend: &'static str, wrapper: &'static str) -> RdInfo {
    let (word_bits, peek_max) = match kind {
        "buf8" => (8, 8),
        "buf16" => (16, 16),
        "buf32" => (32, 32),
        "buf64" => (64, 64),
        "unbuf" => (64, 32),
        _ => unreachable!(),
    };
    RdInfo {
        e,
        kind,
        backend,
        wrapper,
        word_bits,
        peek_max,
        zx: backend == "memzx",
        seek: false,
        io: false,
        copy: false,
        counter: false,
        pre: if wrapper == "count+pre" { PRE_SKIP } else { 0 },
        ragged: backend.contains("+tail"),
    }
}

/// bits consumed before wrapping for the "count+pre" wrapper configuration
pub const PRE_SKIP: usize = 13;

macro_rules! mk_plain {
    // plain reader only (no wrappers, no dispatch instantiation)
    (min, $E:ty, $R:ty, $r:expr, $info:expr, $wrapper:expr) => {{
        type R0 = $R;
        let r: R0 = $r;
        assert!($wrapper.is_empty(), "wrappers are only built over memory backends");
        mk::<$E, R0>(r, full_caps!($E, R0, true, None), $info)
    }};
    // plain reader with dispatch, plus Count / Dbg wrapped variants
    (full, $E:ty, $R:ty, $r:expr, $info:expr, $wrapper:expr) => {{
        type R0 = $R;
        let r: R0 = $r;
        match $wrapper {
            "" => mk::<$E, R0>(r, full_caps!($E, R0, true, Some($crate::disp::disp_read::<$E, R0>)), $info),
            "count" | "count+pre" => {
                type RC = CountBitReader<$E, R0>;
                let mut r = r;
                if $wrapper == "count+pre" {
                    // the wrapper is created on a reader that has already consumed bits
                    let _ = BitRead::<$E>::skip_bits(&mut r, PRE_SKIP);
                }
                let caps = Caps::<RC> {
                    clone: Some(|r: &RC| r.clone()),
                    io_read: None,
                    bit_pos: Some(|r: &mut RC| BitSeek::bit_pos(r).map_err(|e| format!("{e}"))),
                    set_bit_pos: Some(|r: &mut RC, p: u64| BitSeek::set_bit_pos(r, p).map_err(|e| format!("{e}"))),
                    copy: Some($crate::copy_fn_min!($E, RC)),
                    counter: Some(|r: &RC| r.bits_read as u64),
                    disp: None,
                };
                mk::<$E, RC>(CountBitReader::new(r), caps, $info)
            }
            "countp" => {
                // the counting wrapper with its PRINT parameter on (traces to stderr)
                type RC = CountBitReader<$E, R0, true>;
                let caps = Caps::<RC> {
                    clone: Some(|r: &RC| r.clone()),
                    io_read: None,
                    bit_pos: Some(|r: &mut RC| BitSeek::bit_pos(r).map_err(|e| format!("{e}"))),
                    set_bit_pos: Some(|r: &mut RC, p: u64| BitSeek::set_bit_pos(r, p).map_err(|e| format!("{e}"))),
                    copy: Some($crate::copy_fn_min!($E, RC)),
                    counter: Some(|r: &RC| r.bits_read as u64),
                    disp: None,
                };
                mk::<$E, RC>(CountBitReader::<$E, _, true>::new(r), caps, $info)
            }
            "dbg" => {
                type RD = DbgBitReader<$E, R0>;
                let caps = Caps::<RD> {
                    clone: Some(|r: &RD| r.clone()),
                    io_read: None,
                    bit_pos: None,
                    set_bit_pos: None,
                    copy: Some($crate::copy_fn_min!($E, RD)),
                    counter: None,
                    disp: None,
                };
                mk::<$E, RD>(DbgBitReader::new(r), caps, $info)
            }
            _ => unreachable!(),
        }
    }};
}

macro_rules! mk_backend {
    ($E:ty, $W:ty, $mkreader:ident, $bytes:expr, $backend:expr, $info:expr, $wrapper:expr, $tail:expr) => {{
        let words: Vec<$W> = words_from_bytes::<$W>($bytes);
        match $backend {
            "memzx" => {
                let b = MemWordReader::<$W, Rc<[$W]>>::new(Rc::from(words));
                $mkreader!(full, $E, MemWordReader<$W, Rc<[$W]>>, b, $info, $wrapper)
            }
            "memstrict" => {
                let b = MemWordReader::<$W, Rc<[$W]>, false>::new_strict(Rc::from(words));
                $mkreader!(full, $E, MemWordReader<$W, Rc<[$W]>, false>, b, $info, $wrapper)
            }
            "cursor" => {
                let mut all = $bytes.to_vec();
                all.extend_from_slice($tail);
                let b = WordAdapter::<$W, std::io::Cursor<Vec<u8>>>::new(std::io::Cursor::new(all));
                $mkreader!(min, $E, WordAdapter<$W, std::io::Cursor<Vec<u8>>>, b, $info, $wrapper)
            }
            "choppy" => {
                let mut all = $bytes.to_vec();
                all.extend_from_slice($tail);
                let b = WordAdapter::<$W, Choppy>::new(Choppy::new(all));
                $mkreader!(min, $E, WordAdapter<$W, Choppy>, b, $info, $wrapper)
            }
            _ => unreachable!(),
        }
    }};
}

macro_rules! buf_reader {
    ($mode:ident, $E:ty, $B:ty, $b:expr, $info:expr, $wrapper:expr) => {
        mk_plain!($mode, $E, BufBitReader<$E, $B>, BufBitReader::<$E, $B>::new($b), $info, $wrapper)
    };
}
macro_rules! unbuf_reader {
    ($mode:ident, $E:ty, $B:ty, $b:expr, $info:expr, $wrapper:expr) => {
        mk_plain!($mode, $E, BitReader<$E, $B>, BitReader::<$E, $B>::new($b), $info, $wrapper)
    };
}

/// Build a reader of the given configuration over the byte image.
/// Backends whose reader is not Clone ("vec", "slice", "bufreader") are built through ReplayRd.
pub fn make_reader(e: End, kind: &'static str, backend: &'static str, wrapper: &'static str, bytes: &[u8]) -> Box<dyn Rd> {
    make_reader_tail(e, kind, backend, wrapper, bytes, &[])
}

/// `tail`: extra bytes after the last whole word of a byte-stream backend ("cursor", "bufreader"):
/// a partial trailing word, which is not data (reading it must be an error).
pub fn make_reader_tail(e: End, kind: &'static str, backend: &'static str, wrapper: &'static str, bytes: &[u8], tail: &[u8]) -> Box<dyn Rd> {
    assert!(tail.is_empty() || matches!(backend, "cursor" | "bufreader" | "choppy"));
    let shown: &'static str = if tail.is_empty() { backend } else { crate::rdsys::leak(&format!("{}+tail{}", backend, tail.len())) };
    if matches!(backend, "bufreader" | "vec" | "slice") {
        let bytes: Vec<u8> = bytes.to_vec();
        let tail: Vec<u8> = tail.to_vec();
        let build: Rc<dyn Fn() -> Box<dyn Rd>> = Rc::new(move || make_noclone(e, kind, backend, shown, wrapper, &bytes, &tail));
        return Box::new(ReplayRd::new(build));
    }
    let info = base_info(e, kind, shown, wrapper);
    macro_rules! by_e {
        ($E:ty) => {
            match kind {
                "buf8" => mk_backend!($E, u8, buf_reader, bytes, backend, info, wrapper, tail),
                "buf16" => mk_backend!($E, u16, buf_reader, bytes, backend, info, wrapper, tail),
                "buf32" => mk_backend!($E, u32, buf_reader, bytes, backend, info, wrapper, tail),
                "buf64" => mk_backend!($E, u64, buf_reader, bytes, backend, info, wrapper, tail),
                "unbuf" => mk_backend!($E, u64, unbuf_reader, bytes, backend, info, wrapper, tail),
                _ => unreachable!(),
            }
        };
    }
    match e {
        End::BE => by_e!(BE),
        End::LE => by_e!(LE),
    }
}

fn make_noclone(e: End, kind: &'static str, backend: &'static str, shown: &'static str, wrapper: &'static str, bytes: &[u8], tail: &[u8]) -> Box<dyn Rd> {
    assert!(wrapper.is_empty());
    let info = base_info(e, kind, shown, wrapper);
    type BR = std::io::BufReader<std::io::Cursor<Vec<u8>>>;
    macro_rules! fin {
        ($E:ty, $R0:ty, $r:expr) => {{
            type R0 = $R0;
            let caps = Caps::<R0> {
                clone: None,
                io_read: Some(|r: &mut R0, b: &mut [u8]| io_read_mode(r, b)),
                bit_pos: Some(|r: &mut R0| BitSeek::bit_pos(r).map_err(|e| format!("{e}"))),
                set_bit_pos: Some(|r: &mut R0, p: u64| BitSeek::set_bit_pos(r, p).map_err(|e| format!("{e}"))),
                copy: None,
                counter: None,
                disp: None,
            };
            mk::<$E, R0>($r, caps, info)
        }};
    }
    macro_rules! one {
        ($E:ty, $W:ty, $RT:ident) => {{
            match backend {
                "bufreader" => {
                    // small BufReader capacity so that its own refill logic is exercised too
                    let mut all = bytes.to_vec();
                    all.extend_from_slice(tail);
                    let b = WordAdapter::<$W, BR>::new(std::io::BufReader::with_capacity(24, std::io::Cursor::new(all)));
                    fin!($E, $RT<$E, WordAdapter<$W, BR>>, $RT::<$E, WordAdapter<$W, BR>>::new(b))
                }
                "vec" => {
                    let b = MemWordWriterVec::<$W, Vec<$W>>::new(words_from_bytes::<$W>(bytes));
                    fin!($E, $RT<$E, MemWordWriterVec<$W, Vec<$W>>>, $RT::<$E, MemWordWriterVec<$W, Vec<$W>>>::new(b))
                }
                "slice" => {
                    let b = MemWordWriterSlice::<$W, Vec<$W>>::new(words_from_bytes::<$W>(bytes));
                    fin!($E, $RT<$E, MemWordWriterSlice<$W, Vec<$W>>>, $RT::<$E, MemWordWriterSlice<$W, Vec<$W>>>::new(b))
                }
                _ => unreachable!(),
            }
        }};
    }
    macro_rules! by_e {
        ($E:ty) => {
            match kind {
                "buf8" => one!($E, u8, BufBitReader),
                "buf16" => one!($E, u16, BufBitReader),
                "buf32" => one!($E, u32, BufBitReader),
                "buf64" => one!($E, u64, BufBitReader),
                "unbuf" => one!($E, u64, BitReader),
                _ => unreachable!(),
            }
        };
    }
    match e {
        End::BE => by_e!(BE),
        End::LE => by_e!(LE),
    }
}
