//! Run independent exploration tasks on all cores; merge their outcomes.

use crate::report::Outcome;
use std::collections::VecDeque;
use std::sync::Mutex;

pub type Task = Box<dyn FnOnce() -> Outcome + Send>;

pub fn run_all(tasks: Vec<Task>, threads: usize) -> Outcome {
    let q: Mutex<VecDeque<Task>> = Mutex::new(tasks.into());
    let total: Mutex<Outcome> = Mutex::new(Outcome::new());
    std::thread::scope(|s| {
        for _ in 0..threads {
            s.spawn(|| loop {
                let t = q.lock().unwrap().pop_front();
                match t {
                    Some(t) => {
                        let o = t();
                        total.lock().unwrap().merge(o);
                    }
                    None => break,
                }
            });
        }
    });
    total.into_inner().unwrap()
}

pub fn threads() -> usize {
    std::env::var("VERIF_THREADS").ok().and_then(|s| s.parse().ok()).unwrap_or_else(|| std::thread::available_parallelism().map(|n| n.get()).unwrap_or(8))
}
