//! Run independent exploration tasks on all cores; merge their outcomes.

use crate::report::Outcome;
use std::collections::VecDeque;
use std::sync::Mutex;

pub type Task = Box<dyn FnOnce() -> Outcome + Send>;

/// (shard index, number of shards) when this process is a shard child: only tasks whose
/// index is congruent to the shard index are run.
pub static SHARD: Mutex<Option<(usize, usize)>> = Mutex::new(None);
static CALLS: Mutex<usize> = Mutex::new(0);
/// the property being checked (for findings raised by the pool itself)
pub static PROPERTY: Mutex<String> = Mutex::new(String::new());

pub fn is_primary() -> bool {
    match *SHARD.lock().unwrap() {
        None => true,
        Some((i, _)) => i == 0,
    }
}

pub fn run_all(tasks: Vec<Task>, threads: usize) -> Outcome {
    let shard = *SHARD.lock().unwrap();
    let tasks: Vec<Task> = match shard {
        None => tasks,
        Some((i, n)) => {
            // rotate the assignment between successive calls so that small task lists spread out
            let mut c = CALLS.lock().unwrap();
            let rot = *c * 7;
            *c += 1;
            tasks.into_iter().enumerate().filter(|(k, _)| (k + rot) % n == i).map(|(_, t)| t).collect()
        }
    };
    let q: Mutex<VecDeque<Task>> = Mutex::new(tasks.into());
    let total: Mutex<Outcome> = Mutex::new(Outcome::new());
    std::thread::scope(|s| {
        for _ in 0..threads {
            s.spawn(|| loop {
                let t = q.lock().unwrap().pop_front();
                match t {
                    Some(t) => {
                        // Panics raised in harness code never get here (the panic hook turns them into a
                        // machinery exit).  What can unwind out of a task is a panic raised INSIDE the library
                        // by a call the task made without expecting failure: that is a finding about the
                        // library, not a crash of the engine.
                        let o = match std::panic::catch_unwind(std::panic::AssertUnwindSafe(t)) {
                            Ok(o) => o,
                            Err(p) => {
                                let mut o = Outcome::new();
                                o.violations.push(crate::report::Violation {
                                    property: PROPERTY.lock().unwrap().clone(),
                                    system: "uncaught-library-panic".into(),
                                    config: String::new(),
                                    op_class: "library call".into(),
                                    symptom: "panic".into(),
                                    detail: format!("a library call made while setting up or sampling (no failure expected there) panicked: {}", crate::util::panic_msg(&p)),
                                    replay: serde_json::json!({"kind": "none", "note": "re-run the check"}),
                                });
                                o
                            }
                        };
                        total.lock().unwrap().merge(o);
                    }
                    None => break,
                }
            });
        }
    });
    total.into_inner().unwrap()
}

pub fn threads() -> usize {
    std::env::var("VERIF_THREADS").ok().and_then(|s| s.parse().ok()).unwrap_or_else(|| std::thread::available_parallelism().map(|n| n.get()).unwrap_or(8))
}
