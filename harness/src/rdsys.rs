//! Reader state-space exploration: breadth-first over the *real* reader object
//! (exact Debug-string state identity) against the bit-vector model.

use crate::model::{decode, Bits, Code, Dec, End};
use crate::rd::*;
use crate::report::{Cov, Outcome, Violation};
use crate::util::{fnv, hex};
use serde_json::{json, Value};
use std::collections::{HashMap, VecDeque};

pub struct RdModel {
    pub bits: Bits,
    pub e: End,
    pub zx: bool,
    /// positions beyond this are not explored (zero-extended streams are infinite)
    pub limit: usize,
    /// [gamma, delta, zeta3]: reader construction printed no diagnostic for that table
    pub tables_ok: [bool; 3],
}

#[derive(Debug, Clone, PartialEq)]
pub enum Expect {
    Disabled,
    /// value, advance
    Val(u64, usize),
    Peek(u64),
    /// new absolute position
    Unit(usize),
    Bytes(Vec<u8>),
    /// the call may transfer any non-empty prefix of these bytes (read_vectored)
    BytesUpTo(Vec<u8>),
    /// destination bytes, advance
    Copy(Vec<u8>, usize),
    MustErr,
}

pub fn op_code(op: &ROp) -> Option<Code> {
    Some(match op {
        ROp::Unary => Code::Unary,
        ROp::GammaP(_) | ROp::GammaD => Code::Gamma,
        ROp::DeltaP(..) | ROp::DeltaD => Code::Delta,
        ROp::Zeta3P(_) | ROp::Zeta3D => Code::Zeta(3),
        ROp::ZetaD(k) | ROp::ZetaP(k) => Code::Zeta(*k),
        ROp::Omega => Code::Omega,
        ROp::Pi(k) => Code::Pi(*k),
        ROp::Rice(k) => Code::Rice(*k),
        ROp::Golomb(b) => Code::Golomb(*b),
        ROp::ExpGolomb(k) => Code::ExpGolomb(*k),
        ROp::MinBin(u) => Code::MinBin(*u),
        ROp::VByteBe => Code::VByteBe,
        ROp::VByteLe => Code::VByteLe,
        ROp::Disp { code, .. } => *code,
        _ => return None,
    })
}

pub fn copy_expected(m: &RdModel, pos: usize, n: usize, wd: u8, prefill: u8) -> Vec<u8> {
    let mut b = Bits::new();
    let mut left = prefill as usize;
    while left > 0 {
        let c = left.min(64);
        let val = if c == 64 { PREFILL_PAT } else { PREFILL_PAT & ((1u64 << c) - 1) };
        b.push_field(val as u128, c, m.e);
        left -= c;
    }
    for i in 0..n {
        b.push_bit(m.bits.bit(pos + i).unwrap_or(0));
    }
    b.push_field(SENTINEL as u128, SENTINEL_BITS, m.e);
    b.to_bytes(m.e, wd as usize)
}

impl RdModel {
    pub fn len(&self) -> usize {
        self.bits.len()
    }
    pub fn expect(&self, op: &ROp, pos: usize, info: &RdInfo) -> Expect {
        let l = self.len();
        let end_ok = |end: usize| if self.zx { end <= self.limit } else { end <= l };
        match op {
            ROp::ReadBits(n) => {
                let n = *n as usize;
                if !end_ok(pos + n) {
                    return if self.zx { Expect::Disabled } else { Expect::MustErr };
                }
                Expect::Val(self.bits.field(pos, n, self.e, self.zx).unwrap() as u64, n)
            }
            ROp::Peek(n) => {
                let n = *n as usize;
                if n == 0 || n > info.peek_max {
                    return Expect::Disabled;
                }
                if !end_ok(pos + n) {
                    return if self.zx { Expect::Disabled } else { Expect::MustErr };
                }
                Expect::Peek(self.bits.field(pos, n, self.e, self.zx).unwrap() as u64)
            }
            ROp::Skip(n) => {
                let n = *n as usize;
                if !end_ok(pos + n) {
                    return Expect::Disabled;
                }
                Expect::Unit(pos + n)
            }
            ROp::IoRead(len) => {
                let len = *len as usize;
                if !info.io {
                    return Expect::Disabled;
                }
                if !end_ok(pos + 8 * len) {
                    return if self.zx { Expect::Disabled } else { Expect::MustErr };
                }
                let bytes = (0..len).map(|i| self.bits.field(pos + 8 * i, 8, self.e, self.zx).unwrap() as u8).collect();
                Expect::Bytes(bytes)
            }
            ROp::IoReadExact(len) => {
                let len = *len as usize;
                if !info.io {
                    return Expect::Disabled;
                }
                if !end_ok(pos + 8 * len) {
                    return if self.zx { Expect::Disabled } else { Expect::MustErr };
                }
                Expect::Bytes((0..len).map(|i| self.bits.field(pos + 8 * i, 8, self.e, self.zx).unwrap() as u8).collect())
            }
            ROp::IoReadVec(a, b, c) => {
                let len = (*a + *b + *c) as usize;
                // only where the whole request lies inside the stream (how much of it one call takes is free)
                if !info.io || !end_ok(pos + 8 * len) {
                    return Expect::Disabled;
                }
                Expect::BytesUpTo((0..len).map(|i| self.bits.field(pos + 8 * i, 8, self.e, self.zx).unwrap() as u8).collect())
            }
            ROp::SetPos(p) => {
                if !info.seek || *p as usize > l {
                    return Expect::Disabled;
                }
                Expect::Unit(*p as usize)
            }
            ROp::Copy { n, wd, prefill, .. } => {
                if !info.copy {
                    return Expect::Disabled;
                }
                let n = *n as usize;
                if !end_ok(pos + n) {
                    return if self.zx { Expect::Disabled } else { Expect::MustErr };
                }
                Expect::Copy(copy_expected(self, pos, n, *wd, *prefill), n)
            }
            _ => {
                let code = op_code(op).unwrap();
                let t = op.tables();
                for i in 0..3 {
                    if t[i] && !self.tables_ok[i] {
                        return Expect::Disabled;
                    }
                }
                if let ROp::Disp { .. } = op {
                    if crate::disp::codes_of(code).is_none() {
                        return Expect::Disabled;
                    }
                }
                match decode(&self.bits, pos, code, self.e, self.zx) {
                    Dec::Ok(v, len) => {
                        if !end_ok(pos + len) {
                            Expect::Disabled
                        } else {
                            Expect::Val(v, len)
                        }
                    }
                    Dec::Eof => Expect::MustErr,
                    Dec::Infinite | Dec::Invalid => Expect::Disabled,
                }
            }
        }
    }
}

/// Compare an observation with the expectation.  Ok(Some(newpos)) = agree and continue,
/// Ok(None) = agree, terminal (error reported as required), Err((symptom, detail)).
pub fn judge(exp: &Expect, obs: &RObs, pos: usize) -> Result<Option<usize>, (String, String)> {
    let bad = |sym: &str, d: String| Err((sym.to_string(), d));
    match obs {
        RObs::Panic(m) => return bad("panic", format!("expected {:?}, panicked: {}", exp, m)),
        RObs::Unsupported => return Ok(None),
        RObs::Damaged(m) => return bad("bytes", m.clone()),
        _ => {}
    }
    match (exp, obs) {
        (Expect::Val(v, adv), RObs::Val(x)) => {
            if v == x {
                Ok(Some(pos + adv))
            } else {
                bad("value", format!("expected {} got {}", v, x))
            }
        }
        (Expect::Peek(v), RObs::Peek(a, b)) => {
            if a != b {
                bad("value", format!("peek not repeatable: {} then {}", a, b))
            } else if a != v {
                bad("value", format!("expected peek {} got {}", v, a))
            } else {
                Ok(Some(pos))
            }
        }
        (Expect::Unit(np), RObs::Unit) => Ok(Some(*np)),
        (Expect::Bytes(b), RObs::Bytes(x, c)) => {
            if *c != b.len() {
                bad("count", format!("io::Read returned {} for a {}-byte buffer", c, b.len()))
            } else if b != x {
                bad("bytes", format!("expected {} got {}", hex(b), hex(x)))
            } else {
                Ok(Some(pos + 8 * b.len()))
            }
        }
        (Expect::BytesUpTo(b), RObs::Bytes(x, c)) => {
            if *c > b.len() || (*c == 0 && !b.is_empty()) {
                bad("count", format!("read_vectored returned {} for {} bytes of room inside the stream", c, b.len()))
            } else if b[..*c] != x[..*c] {
                bad("bytes", format!("read_vectored delivered {} where the stream holds {}", hex(&x[..*c]), hex(&b[..*c])))
            } else {
                Ok(Some(pos + 8 * c))
            }
        }
        (Expect::Copy(b, adv), RObs::Copy(x)) => {
            if b != x {
                bad("bytes", format!("destination expected {} got {}", hex(b), hex(x)))
            } else {
                Ok(Some(pos + adv))
            }
        }
        (Expect::MustErr, RObs::Err) => Ok(None),
        
        (Expect::MustErr, o) => bad("no-error", format!("needs bits beyond the end of a strict stream but returned {:?}", o)),
        (e, RObs::Err) => bad("error", format!("expected {:?}, got an error", e)),
        (e, o) => bad("shape", format!("expected {:?} got {:?}", e, o)),
    }
}

/// wall-clock cap for one (configuration, image) exploration (VERIF_WALL_CAP seconds; default 120)
pub fn wall_cap_s() -> u64 {
    std::env::var("VERIF_WALL_CAP").ok().and_then(|s| s.parse().ok()).unwrap_or(120)
}

/// model position of a state reached through a reported error (only seeks are issued from it)
pub const ERRORED: usize = usize::MAX;

/// after this many violating transitions in one (configuration, image) the exploration stops
pub const VIOLATION_BUDGET: u64 = 400;

pub struct RdRun<'a> {
    pub property: &'static str,
    pub model: &'a RdModel,
    pub image: &'a [u8],
    pub alphabet: &'a [ROp],
    /// stop after this many states (0 = none); hitting it is reported as a cap
    pub max_states: usize,
    pub check_counter: bool,
    /// 0 = explore to the fixpoint; otherwise histories of at most this many operations
    pub max_depth: u32,
}

struct Node {
    parent: u32,
    op: Option<ROp>,
    depth: u32,
}

fn path_to(nodes: &[Node], mut i: usize) -> Vec<ROp> {
    let mut p = vec![];
    while let Some(op) = &nodes[i].op {
        p.push(op.clone());
        i = nodes[i].parent as usize;
    }
    p.reverse();
    p
}

pub fn replay_doc(info: &RdInfo, model: &RdModel, image: &[u8], ops: &[ROp]) -> Value {
    json!({
        "kind": "reader",
        "e": info.e, "rkind": info.kind, "backend": info.backend, "wrapper": info.wrapper,
        "image": hex(image), "len_bits": model.len(), "zx": model.zx, "limit": model.limit,
        "tables_ok": model.tables_ok,
        "ops": ops,
        "io_align": crate::util::io_align(),
    })
}

/// Breadth-first exploration to the fixpoint (or to max_states).
pub fn explore(run: &RdRun, init: Box<dyn Rd>) -> Outcome {
    let mut out = Outcome::new();
    let info = init.info().clone();
    let cfg = info.id();
    out.cov.configs.insert(cfg.clone());
    let mut seen: HashMap<String, u32> = HashMap::new();
    let mut nodes: Vec<Node> = vec![];
    let mut queue: VecDeque<(u32, Box<dyn Rd>, usize)> = VecDeque::new();
    let mut sigs: HashMap<String, u64> = HashMap::new();
    crate::watchdog::set_context(serde_json::to_string(&json!({"base": replay_doc(&info, run.model, run.image, &[]), "alphabet": run.alphabet})).unwrap());
    let pos0 = info.pre;
    let k0 = format!("{}@{}", init.key(), pos0);
    seen.insert(k0, 0);
    nodes.push(Node { parent: 0, op: None, depth: 0 });
    queue.push_back((0, init, pos0));
    let mut sampled = false;
    let mut nviol = 0u64;
    // distinct MODEL transitions (position, operation): independent of how many concrete states the
    // implementation distinguishes, hence comparable across builds and internal representations
    let mut model_tr: std::collections::HashSet<(usize, u32)> = std::collections::HashSet::new();
    let t_start = std::time::Instant::now();
    let wall_cap = wall_cap_s();
    while let Some((id, rd, pos)) = queue.pop_front() {
        if (id & 0x3F) == 0 && t_start.elapsed().as_secs() >= wall_cap {
            out.cov.caps_hit.push(format!("{}: wall cap of {} s per (configuration, image) reached after {} states", cfg, wall_cap, nodes.len()));
            break;
        }
        if nviol >= VIOLATION_BUDGET {
            // the property is refuted many times over: do not spend the budget on a space that no longer closes
            out.cov.caps_hit.push(format!("{}: exploration stopped after {} violating transitions", cfg, nviol));
            break;
        }
        let depth = nodes[id as usize].depth;
        crate::watchdog::enter(|| serde_json::to_string(&path_to(&nodes, id as usize)).unwrap());
        // a state reached through a reported error is only continued by seeks (which must
        // re-establish a defined state whatever the failed operation consumed)
        let errored = pos == ERRORED;
        if run.max_depth > 0 && depth >= run.max_depth {
            continue;
        }
        for (opi, op) in run.alphabet.iter().enumerate() {
            if errored && !matches!(op, ROp::SetPos(_)) {
                continue;
            }
            crate::watchdog::set_aux(opi as u64);
            let exp = run.model.expect(op, if errored { 0 } else { pos }, &info);
            if exp == Expect::Disabled {
                continue;
            }
            let mut r2 = rd.fork();
            let f0 = fault_count();
            let obs = r2.apply(op);
            let faulted = fault_count() != f0;
            out.cov.transitions += 1;
            model_tr.insert((pos, opi as u32));
            let mut verdict = judge(&exp, &obs, if errored { 0 } else { pos });
            if faulted && matches!(obs, RObs::Err) && verdict.is_err() {
                // the byte source answered Interrupted during this operation: reporting an error is
                // permitted (C11), returning wrong data is not; the state lives on as an errored state
                verdict = Ok(None);
                out.cov.add_extra("errors_accepted_after_injected_interrupt", 1);
            }
            // an observation = what the call returned and where it left the stream
            out.cov.observe(op.class(), fnv(format!("{:?}{:?}", obs, verdict.as_ref().ok()).as_bytes()));
            if depth >= 1 {
                out.cov.nontrivial += 1;
            }
            // position / counter oracles
            if let Ok(Some(np)) = verdict {
                if let Some(bp) = if info.ragged { None } else { r2.bit_pos() } {
                    match bp {
                        Ok(p) if p as usize == np => {}
                        Ok(p) => verdict = Err(("position".into(), format!("bit_pos() = {} but {} bits precede the next bit", p, np))),
                        Err(e) => verdict = Err(("position".into(), format!("bit_pos() failed: {}", e))),
                    }
                }
                if run.check_counter {
                    if let Some(c) = r2.counter() {
                        if c as usize + info.pre != np && verdict.is_ok() {
                            verdict = Err(("counter".into(), format!("bits_read = {} but {} bits were consumed since the wrapper was created", c, np - info.pre)));
                        }
                    }
                }
            }
            match verdict {
                Ok(Some(np)) => {
                    let key = format!("{}@{}", r2.key(), np);
                    if !seen.contains_key(&key) {
                        if run.max_states > 0 && nodes.len() >= run.max_states {
                            if !out.cov.caps_hit.iter().any(|c| c.starts_with(&cfg)) {
                                out.cov.caps_hit.push(format!("{}: state cap {} reached", cfg, run.max_states));
                            }
                            continue;
                        }
                        let nid = nodes.len() as u32;
                        seen.insert(key, nid);
                        nodes.push(Node { parent: id, op: Some(op.clone()), depth: depth + 1 });
                        out.cov.max_depth = out.cov.max_depth.max(depth as u64 + 1);
                        queue.push_back((nid, r2, np));
                    }
                }
                Ok(None) if matches!(op, ROp::Peek(_)) && matches!(obs, RObs::Err) && !errored && !faulted => {
                    // a failed look-ahead must leave the reader intact (table decoders fall back to the
                    // bit-by-bit path after it): the state continues as an ordinary state at the same position
                    let key = format!("{}@{}", r2.key(), pos);
                    if !seen.contains_key(&key) && (run.max_states == 0 || nodes.len() < run.max_states) {
                        let nid = nodes.len() as u32;
                        seen.insert(key, nid);
                        nodes.push(Node { parent: id, op: Some(op.clone()), depth: depth + 1 });
                        queue.push_back((nid, r2, pos));
                    }
                }
                Ok(None) => {
                    // error reported as required: the object lives on as an "errored" state
                    if info.seek && !errored && !matches!(obs, RObs::Unsupported) {
                        let key = format!("{}@err", r2.key());
                        if !seen.contains_key(&key) && (run.max_states == 0 || nodes.len() < run.max_states) {
                            let nid = nodes.len() as u32;
                            seen.insert(key, nid);
                            nodes.push(Node { parent: id, op: Some(op.clone()), depth: depth + 1 });
                            queue.push_back((nid, r2, ERRORED));
                        }
                    }
                }
                Err((symptom, detail)) => {
                    let mut ops = path_to(&nodes, id as usize);
                    ops.push(op.clone());
                    let v = Violation {
                        property: run.property.into(),
                        system: "reader".into(),
                        config: cfg.clone(),
                        op_class: op.class().into(),
                        symptom,
                        detail: format!("after {} ops at bit {}: {:?}: {}", ops.len() - 1, pos, op, detail),
                        replay: replay_doc(&info, run.model, run.image, &ops),
                    };
                    let c = sigs.entry(v.sig()).or_insert(0);
                    *c += 1;
                    nviol += 1;
                    if *c <= 3 {
                        out.violations.push(v);
                    }
                }
            }
        }
        if !sampled && depth >= 3 {
            sampled = true;
            out.cov.sample(json!({"config": cfg, "path": path_to(&nodes, id as usize), "state": rd.key().chars().take(160).collect::<String>(), "pos": pos}));
        }
    }
    crate::watchdog::leave();
    out.cov.states += nodes.len() as u64;
    // every transition is one step of the model executed on the implementation and compared
    out.cov.traces_validated += out.cov.transitions;
    out.cov.add_extra("reader_model_transitions", model_tr.len() as u64);
    out
}

/// Replay one operation list with the oracle on every step (no explorer); returns a transcript.
pub fn replay(doc: &Value) -> (Vec<String>, bool) {
    let e: End = serde_json::from_value(doc["e"].clone()).unwrap();
    let kind = leak(doc["rkind"].as_str().unwrap());
    let backend = leak(doc["backend"].as_str().unwrap());
    let wrapper = leak(doc["wrapper"].as_str().unwrap());
    let image = crate::util::unhex(doc["image"].as_str().unwrap());
    let ops: Vec<ROp> = serde_json::from_value(doc["ops"].clone()).unwrap();
    let tables_ok: [bool; 3] = serde_json::from_value(doc["tables_ok"].clone()).unwrap();
    crate::util::set_io_align(doc.get("io_align").and_then(|a| a.as_u64()).map(|a| a as u8));
    let model = RdModel {
        bits: Bits::from_bytes(&image, e),
        e,
        zx: doc["zx"].as_bool().unwrap(),
        limit: doc["limit"].as_u64().unwrap() as usize,
        tables_ok,
    };
    let (bname, tail): (&'static str, Vec<u8>) = match backend.split_once("+tail") {
        Some((b, n)) => (leak(b), vec![0xFF; n.parse::<usize>().unwrap_or(0)]),
        None => (backend, vec![]),
    };
    let mut rd = make_reader_tail(e, kind, bname, wrapper, &image, &tail);
    let info = rd.info().clone();
    let mut pos = info.pre;
    let mut log = vec![];
    let mut failed = false;
    for op in &ops {
        if pos == ERRORED && !matches!(op, ROp::SetPos(_)) {
            log.push(format!("{:?}: not issued after an error (only seeks are)", op));
            break;
        }
        let exp = model.expect(op, if pos == ERRORED { 0 } else { pos }, &info);
        let obs = rd.apply(op);
        let mut verdict = judge(&exp, &obs, pos);
        if let Ok(Some(np)) = verdict {
            if let Some(bp) = if info.ragged { None } else { rd.bit_pos() } {
                match bp {
                    Ok(p) if p as usize == np => {}
                    Ok(p) => verdict = Err(("position".into(), format!("bit_pos() = {} expected {}", p, np))),
                    Err(e) => verdict = Err(("position".into(), e)),
                }
            }
            if let Some(c) = rd.counter() {
                if c as usize + info.pre != np && verdict.is_ok() && doc["check_counter"].as_bool().unwrap_or(true) {
                    verdict = Err(("counter".into(), format!("bits_read = {} expected {}", c, np - info.pre)));
                }
            }
        }
        let s = format!("pos {:>5} {:<40} expect {:<30} observed {:<30} => {:?}", pos, format!("{:?}", op), trunc(&format!("{:?}", exp)), trunc(&format!("{:?}", obs)), verdict);
        log.push(s);
        match verdict {
            Ok(Some(np)) => pos = np,
            Ok(None) if matches!(op, ROp::Peek(_)) && matches!(obs, RObs::Err) => {}
            Ok(None) => pos = ERRORED,
            Err(_) => {
                failed = true;
                break;
            }
        }
    }
    (log, failed)
}

fn trunc(s: &str) -> String {
    if s.len() > 60 {
        format!("{}…", &s[..60])
    } else {
        s.to_string()
    }
}

pub fn leak(s: &str) -> &'static str {
    Box::leak(s.to_string().into_boxed_str())
}

pub fn cov_note(cov: &mut Cov, s: &str) {
    if !cov.notes.iter().any(|n| n == s) {
        cov.notes.push(s.to_string());
    }
}
