//! Byte images explored by the reader checks.  Structured images are fixed;
//! VERIF_SEED only selects the pseudo-random ones that are added to them.

use crate::model::{encode_into, Bits, Code, End};
use crate::util::Rng;

pub struct Image {
    pub name: String,
    pub bytes: Vec<u8>,
}

fn pad(mut b: Bits, nbits: usize, fill_one_at_end: bool) -> Bits {
    b.v.truncate(nbits);
    while b.len() < nbits {
        b.push_bit(0);
    }
    if fill_one_at_end {
        let n = b.len();
        b.v[n - 1] = 1;
    }
    b
}

/// A stream of valid codewords of many codes (small and medium values), so that table
/// look-ahead, fallbacks and every code reader see real codewords at every alignment.
pub fn code_stream(e: End, nbits: usize, rng: &mut Rng, codes: &[Code]) -> Bits {
    let mut b = Bits::new();
    let mut i = 0usize;
    while b.len() < nbits {
        let c = codes[i % codes.len()];
        i += 1;
        let r = rng.next();
        let v = match r % 7 {
            0 => r >> 60,            // tiny
            1 => (r >> 32) % 70,     // around gamma WRITE_MAX
            2 => (r >> 32) % 1100,   // around delta/zeta WRITE_MAX
            3 => (r >> 20) % 5000,
            4 => 0,
            5 => (r >> 40) % 300,
            _ => (r >> 16) % 100_000,
        };
        let v = match c {
            Code::Unary => v % 40,
            Code::Rice(k) => v % (40u64 << k),
            Code::Golomb(bb) => v % (40 * bb),
            Code::MinBin(u) => v % u,
            _ => v,
        };
        encode_into(&mut b, c, v, e, true);
    }
    pad(b, nbits, true)
}

pub const MIX: [Code; 16] = [
    Code::Gamma, Code::Delta, Code::Zeta(3), Code::Unary, Code::Gamma, Code::Omega, Code::Delta, Code::Zeta(3),
    Code::Pi(2), Code::Zeta(2), Code::Rice(2), Code::Golomb(3), Code::ExpGolomb(1), Code::VByteBe, Code::VByteLe, Code::MinBin(5),
];
pub const TABLED: [Code; 3] = [Code::Gamma, Code::Delta, Code::Zeta(3)];

/// nbits must be a multiple of 128.
pub fn images(e: End, nbits: usize, seed: u64, thorough: bool) -> Vec<Image> {
    assert!(nbits % 128 == 0);
    let mut out = vec![];
    let mut rng = Rng::new(seed ^ 0xD51);
    let rnd: Vec<u8> = (0..nbits / 8).map(|_| rng.next() as u8).collect();
    out.push(Image { name: format!("seeded{}", seed), bytes: rnd });
    let mut r2 = Rng::new(seed ^ 0xC0DE);
    out.push(Image { name: "codes-mixed".into(), bytes: code_stream(e, nbits, &mut r2, &MIX).to_bytes(e, 128) });
    // long zero runs of every residue, each terminated by a one
    let mut z = Bits::new();
    // the longest runs first: they must fit even in the shortest images (a run has to cover a whole
    // aligned zero word of every reader, starting from an unaligned position)
    let runs = [129usize, 1, 127, 0, 70, 7, 8, 9, 15, 16, 17, 31, 33, 63, 64, 65];
    let mut i = 0;
    while z.len() < nbits {
        z.push_unary(runs[i % runs.len()] as u64);
        i += 1;
    }
    out.push(Image { name: "zero-runs".into(), bytes: pad(z, nbits, true).to_bytes(e, 128) });
    if thorough {
        out.push(Image { name: "codes-tabled".into(), bytes: code_stream(e, nbits, &mut r2, &TABLED).to_bytes(e, 128) });
        out.push(Image { name: "all-ones".into(), bytes: vec![0xFF; nbits / 8] });
        let mut zo = vec![0u8; nbits / 8];
        let last = zo.len() - 1;
        zo[last] = 0xFF;
        out.push(Image { name: "zeros-then-ones".into(), bytes: zo });
        out.push(Image { name: "alternating".into(), bytes: vec![0xA5; nbits / 8] });
        let mut sp = vec![0u8; nbits / 8];
        for (k, b) in sp.iter_mut().enumerate() {
            if k % 5 == 2 {
                *b = 1 << (k % 8);
            }
        }
        let l = sp.len() - 1;
        sp[l] |= 0x81;
        out.push(Image { name: "sparse".into(), bytes: sp });
        for j in 1..=3u64 {
            let mut r = Rng::new(seed.wrapping_add(j * 7919));
            out.push(Image { name: format!("seeded{}+{}", seed, j), bytes: (0..nbits / 8).map(|_| r.next() as u8).collect() });
        }
        let mut r3 = Rng::new(seed ^ 0xBEEF);
        out.push(Image { name: "codes-mixed-2".into(), bytes: code_stream(e, nbits, &mut r3, &MIX).to_bytes(e, 128) });
    }
    out
}
