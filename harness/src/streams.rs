//! Stream engine for the value properties (C03/C04/C05/C06): a history
//! "o pattern bits, codeword, sentinel" repeated for a list of items is written with
//! the real writer, compared with the reference image, and read back by real readers.

use crate::model::{encode_into, ref_len, zeta_defn_fits, Bits, Code, End};
use crate::rd::{make_reader, ROp, RObs};
use crate::report::{Outcome, Violation};
use crate::util::hex;
use crate::wr::{run_on_backend, WObs, WOp};
use serde::{Deserialize, Serialize};
use serde_json::{json, Value};

#[derive(Clone, Copy, Debug, PartialEq, Eq, Serialize, Deserialize)]
pub struct Item {
    pub code: Code,
    pub v: u64,
    /// write variant index (see write_variants)
    pub wvar: u8,
    /// raw byte written right after the codeword (the bits a table look-ahead sees); 0xFFFF = none
    #[serde(default = "no_follow")]
    pub follow: u16,
}

pub fn no_follow() -> u16 {
    0xFFFF
}

pub fn write_variants(code: Code, v: u64) -> Vec<WOp> {
    let mut o = vec![WOp::Code { code, v }];
    match code {
        Code::Gamma => {
            o.push(WOp::GammaP { t: false, v });
            o.push(WOp::GammaP { t: true, v });
        }
        Code::Delta => {
            for dt in [false, true] {
                for gt in [false, true] {
                    o.push(WOp::DeltaP { dt, gt, v });
                }
            }
        }
        Code::Zeta(k) => {
            if k == 3 {
                o.push(WOp::Zeta3P { t: false, v });
                o.push(WOp::Zeta3P { t: true, v });
            }
            o.push(WOp::ZetaP { t: false, k, v });
            o.push(WOp::ZetaP { t: true, k, v });
        }
        _ => {}
    }
    if crate::disp::codes_of(code).is_some() {
        for kind in 0..crate::disp::WKINDS.len() as u8 {
            o.push(WOp::Disp { kind, code, v });
        }
    }
    o
}

pub fn n_write_variants(code: Code) -> usize {
    write_variants(code, 0).len()
}

/// every way of reading the code (default method first)
pub fn read_variants(code: Code, with_disp: bool) -> Vec<ROp> {
    let mut o = vec![];
    match code {
        Code::Unary => o.push(ROp::Unary),
        Code::Gamma => {
            o.push(ROp::GammaD);
            o.push(ROp::GammaP(false));
            o.push(ROp::GammaP(true));
        }
        Code::Delta => {
            o.push(ROp::DeltaD);
            for dt in [false, true] {
                for gt in [false, true] {
                    o.push(ROp::DeltaP(dt, gt));
                }
            }
        }
        Code::Zeta(k) => {
            if k == 3 {
                o.push(ROp::Zeta3D);
                o.push(ROp::Zeta3P(false));
                o.push(ROp::Zeta3P(true));
            }
            o.push(ROp::ZetaD(k));
            o.push(ROp::ZetaP(k));
        }
        Code::Omega => o.push(ROp::Omega),
        Code::Pi(k) => o.push(ROp::Pi(k)),
        Code::Rice(k) => o.push(ROp::Rice(k)),
        Code::Golomb(b) => o.push(ROp::Golomb(b)),
        Code::ExpGolomb(k) => o.push(ROp::ExpGolomb(k)),
        Code::MinBin(u) => o.push(ROp::MinBin(u)),
        Code::VByteBe => o.push(ROp::VByteBe),
        Code::VByteLe => o.push(ROp::VByteLe),
    }
    if with_disp && crate::disp::codes_of(code).is_some() {
        for kind in 0..crate::disp::RKINDS.len() as u8 {
            o.push(ROp::Disp { kind, code });
        }
    }
    o
}

pub const OFFSET_PAT: u64 = 0x6B8B_4567_327B_23C6;
/// sentinel: delta(5) then 7 raw bits 1011001
pub const SENT_RAW: u64 = 0b1011001;

fn offset_ops(o: usize) -> Vec<WOp> {
    let mut ops = vec![];
    let mut left = o;
    while left > 0 {
        let c = left.min(61);
        ops.push(WOp::WriteBits { v: OFFSET_PAT & ((1u64 << c) - 1), n: c as u8 });
        left -= c;
    }
    ops
}

#[derive(Clone, Debug)]
pub struct StreamCfg {
    pub e: End,
    pub wbits: usize,
    pub offset: usize,
    /// (reader kind, backend)
    pub readers: Vec<(&'static str, &'static str)>,
    pub with_disp: bool,
    /// try every read variant on a clone at every item (else only the default one)
    pub all_read_variants: bool,
}

impl StreamCfg {
    pub fn id(&self) -> String {
        format!("{}/w{}/o{}", self.e.name(), self.wbits, self.offset)
    }
}

/// replay recipe: the history up to and including the failing item (the state the item
/// meets depends on the items before it)
fn item_doc(cfg: &StreamCfg, items: &[Item], ix: usize, reader: Option<(&str, &str)>) -> Value {
    json!({"kind": "item", "e": cfg.e, "wbits": cfg.wbits, "offset": cfg.offset, "item": items[ix], "items": &items[..=ix],
        "reader": reader.map(|r| json!([r.0, r.1])), "with_disp": cfg.with_disp})
}

fn viol(prop: &str, system: &str, config: String, op_class: String, symptom: &str, detail: String, replay: Value) -> Violation {
    Violation { property: prop.into(), system: system.into(), config, op_class, symptom: symptom.into(), detail, replay }
}

/// Which decode tables the reader kind may use.
pub type Diag = std::collections::BTreeMap<String, [bool; 3]>;

/// Check one stream.  Violations are attributed: bytes -> C04, write return / length
/// agreement -> C06, read value / position -> C03, disagreement between table and
/// table-free variants -> C05, dispatcher disagreement -> C10.
pub fn check_stream(cfg: &StreamCfg, items: &[Item], diag: &Diag, out: &mut Outcome) {
    let e = cfg.e;
    // ---- model image and writer history
    let mut ops: Vec<WOp> = vec![];
    let mut model = Bits::new();
    let mut marks: Vec<(usize, usize, usize)> = vec![]; // (op index of the code write, model start, model end)
    for it in items {
        for op in offset_ops(cfg.offset) {
            crate::wr::model_apply(&mut model, &op, e, cfg.wbits);
            ops.push(op);
        }
        let wv = write_variants(it.code, it.v);
        let op = wv[it.wvar as usize % wv.len()].clone();
        let start = model.len();
        encode_into(&mut model, it.code, it.v, e, true);
        marks.push((ops.len(), start, model.len()));
        ops.push(op);
        if it.follow != 0xFFFF {
            let f = WOp::WriteBits { v: it.follow as u64, n: 8 };
            crate::wr::model_apply(&mut model, &f, e, cfg.wbits);
            ops.push(f);
        }
        let s1 = WOp::Code { code: Code::Delta, v: 5 };
        let s2 = WOp::WriteBits { v: SENT_RAW, n: 7 };
        crate::wr::model_apply(&mut model, &s1, e, cfg.wbits);
        crate::wr::model_apply(&mut model, &s2, e, cfg.wbits);
        ops.push(s1);
        ops.push(s2);
    }
    out.cov.evaluations += items.len() as u64;
    let cap = model.len().div_ceil(cfg.wbits) + 1;
    let fo = match run_on_backend(e, cfg.wbits, "vec", "into_inner", &ops, cap) {
        Ok(f) => f,
        Err(msg) => {
            out.violations.push(viol("C03", "stream-writer", cfg.id(), "finish".into(), "error", msg, json!({"kind": "stream", "cfg": cfg.id()})));
            return;
        }
    };
    // ---- write returns (C06) and early stop
    let mut real_end: Vec<usize> = vec![]; // cumulative real position after each item's codeword, from write returns
    let mut pos = 0usize;
    let mut oi = 0usize;
    let mut ok_items = items.len();
    'items: for (ix, it) in items.iter().enumerate() {
        let (code_op, mstart, mend) = marks[ix];
        while oi < fo.obs.len() {
            let o = &fo.obs[oi];
            let ret = match o {
                WObs::Ret(n) => *n,
                WObs::Unsupported => {
                    // dispatcher does not support this code: not a violation; cannot continue the stream
                    ok_items = ix;
                    break 'items;
                }
                other => {
                    let sym = if matches!(other, WObs::Panic(_)) { "panic" } else { "error" };
                    let prop = if matches!(ops[oi], WOp::Disp { .. }) { "C10" } else { "C03" };
                    out.violations.push(viol(prop, "stream-writer", cfg.id(), format!("write:{}", it.code.family()), sym, format!("{:?} -> {:?}", ops[oi], other), item_doc(cfg, items, ix, None)));
                    ok_items = ix;
                    break 'items;
                }
            };
            if oi == code_op {
                let want = mend - mstart;
                if ret != want {
                    let prop = if matches!(ops[oi], WOp::Disp { .. }) { "C10" } else { "C06" };
                    out.violations.push(viol(
                        prop,
                        "stream-writer",
                        cfg.id(),
                        format!("write:{}", it.code.family()),
                        "length",
                        format!("{:?} returned {} but the reference codeword has {} bits", ops[oi], ret, want),
                        item_doc(cfg, items, ix, None),
                    ));
                }
                // library length functions
                let ll = crate::disp::direct_len(it.code, it.v);
                if ll != ret {
                    out.violations.push(viol(
                        "C06",
                        "len-fn",
                        cfg.id(),
                        format!("len:{}", it.code.family()),
                        "length",
                        format!("len function says {} but the write of {:?} returned {}", ll, ops[oi], ret),
                        item_doc(cfg, items, ix, None),
                    ));
                }
                pos += ret;
                real_end.push(pos);
                oi += 1;
                // follow byte + sentinel ops
                for _ in 0..(2 + (it.follow != 0xFFFF) as usize) {
                    if let Some(WObs::Ret(n)) = fo.obs.get(oi) {
                        pos += n;
                    }
                    oi += 1;
                }
                continue 'items;
            } else {
                pos += ret;
                oi += 1;
            }
        }
    }
    if fo.obs.len() < ops.len() && ok_items == items.len() {
        ok_items = real_end.len();
    }
    // ---- byte image (C04): compare item by item so that the first bad codeword is named
    let want = model.to_bytes(e, cfg.wbits);
    if ok_items == items.len() && fo.bytes != want {
        let got = Bits::from_bytes(&fo.bytes, e);
        let mut named = false;
        for (ix, it) in items.iter().enumerate() {
            let (_, s, t) = marks[ix];
            if got.len() < t || got.v[s..t] != model.v[s..t] {
                let claimed = match it.code {
                    Code::Zeta(k) => zeta_defn_fits(it.v, k),
                    _ => true,
                };
                if claimed {
                    let prop = if matches!(ops[marks[ix].0], WOp::Disp { .. }) { "C10" } else { "C04" };
                    out.violations.push(viol(
                        prop,
                        "stream-writer",
                        cfg.id(),
                        format!("write:{}", it.code.family()),
                        "bytes",
                        format!(
                            "{:?}: codeword bits expected {} got {}",
                            ops[marks[ix].0],
                            model.slice(s, t).to_string01(),
                            if got.len() >= t { got.slice(s, t).to_string01() } else { "<short>".into() }
                        ),
                        item_doc(cfg, items, ix, None),
                    ));
                }
                named = true;
                break;
            }
        }
        if !named {
            out.violations.push(viol(
                "C01",
                "stream-writer",
                cfg.id(),
                "write".into(),
                "bytes",
                format!("image differs outside codewords: expected {} got {}", hex(&want), hex(&fo.bytes)),
                json!({"kind": "stream", "cfg": cfg.id(), "items": items}),
            ));
        }
        // no return: whether the stream still reads back as the values written (C03) does not
        // depend on which codewords the writer chose; positions below come from the write returns
    }
    if ok_items < items.len() {
        return;
    }
    // ---- read back with every reader (C03, C05, C10)
    for &(kind, backend) in &cfg.readers {
        let tables_ok = diag[kind];
        // pad only up to the reader's own word: strict readers then meet the real end of the data
        // right after the last item (failed look-ahead refills, exact-end reads)
        let rw = match kind {
            "buf8" => 1,
            "buf16" => 2,
            "buf32" => 4,
            _ => 8,
        };
        let mut padded = fo.bytes.clone();
        while padded.len() % rw != 0 {
            padded.push(0);
        }
        let mut rd = make_reader(e, kind, backend, "", &padded);
        let rid = format!("{}/{}/{}/w{}/o{}", e.name(), kind, backend, cfg.wbits, cfg.offset);
        let mut mpos = 0usize;
        for (ix, it) in items.iter().enumerate() {
            let t = real_end[ix];
            // offset bits
            if cfg.offset > 0 {
                let o = rd.apply(&ROp::Skip(cfg.offset as u16));
                if o != RObs::Unit {
                    out.violations.push(viol("C03", "stream-reader", rid.clone(), "skip_bits".into(), "error", format!("{:?}", o), item_doc(cfg, items, ix, Some((kind, backend)))));
                    break;
                }
            }
            mpos += cfg.offset;
            let variants = read_variants(it.code, cfg.with_disp);
            let mut chosen: Option<Box<dyn crate::rd::Rd>> = None;
            let mut bad = false;
            for (vi, rop) in variants.iter().enumerate() {
                if !cfg.all_read_variants && vi > 0 {
                    break;
                }
                let tb = rop.tables();
                if (0..3).any(|i| tb[i] && !tables_ok[i]) {
                    continue;
                }
                let mut r2 = rd.fork();
                let o = r2.apply(rop);
                out.cov.transitions += 1;
                if o == RObs::Unsupported {
                    continue;
                }
                let is_disp = matches!(rop, ROp::Disp { .. });
                let is_table = tb.iter().any(|x| *x);
                let prop = if is_disp {
                    "C10"
                } else if is_table && vi > 0 {
                    "C05"
                } else {
                    "C03"
                };
                let mut fail: Option<(&str, String)> = None;
                match &o {
                    RObs::Val(x) if *x == it.v => {
                        if let Some(Ok(p)) = r2.bit_pos() {
                            if p as usize != t {
                                fail = Some(("position", format!("{:?} left the reader at bit {} but the codeword ends at {}", rop, p, t)));
                            }
                        }
                    }
                    RObs::Val(x) => {
                        // a wrong value with a wrong number of consumed bits is also a length matter (C06)
                        let moved = matches!(r2.bit_pos(), Some(Ok(p)) if p as usize != t);
                        fail = Some((if moved { "value+position" } else { "value" }, format!("{:?} returned {} for a codeword of {}{}", rop, x, it.v, if moved { " and did not stop at its end" } else { "" })));
                    }
                    RObs::Panic(m) => fail = Some(("panic", format!("{:?} panicked: {}", rop, m))),
                    other => fail = Some(("error", format!("{:?} -> {:?}", rop, other))),
                }
                if let Some((sym, det)) = fail {
                    out.violations.push(viol(prop, "stream-reader", rid.clone(), format!("read:{}:{}", it.code.family(), rop.class()), sym, det, item_doc(cfg, items, ix, Some((kind, backend)))));
                    bad = true;
                } else if chosen.is_none() {
                    chosen = Some(r2);
                }
            }
            // when at least one variant read the item correctly the stream goes on with that reader:
            // one bad variant must not hide what the same variant does on the following items
            if chosen.is_none() || (bad && out.violations.len() > 2000) {
                break;
            }
            rd = chosen.unwrap();
            mpos = t;
            if it.follow != 0xFFFF {
                let o = rd.apply(&ROp::ReadBits(8));
                if o != RObs::Val(it.follow as u64) {
                    out.violations.push(viol("C03", "stream-reader", rid.clone(), format!("read:{}:follow", it.code.family()), "value", format!("the byte after {:?}({}) read as {:?}, expected {}", it.code, it.v, o, it.follow), item_doc(cfg, items, ix, Some((kind, backend)))));
                    break;
                }
                mpos += 8;
            }
            // sentinel
            let o1 = rd.apply(&ROp::DeltaP(false, false));
            let o2 = rd.apply(&ROp::ReadBits(7));
            if o1 != RObs::Val(5) || o2 != RObs::Val(SENT_RAW) {
                out.violations.push(viol(
                    "C03",
                    "stream-reader",
                    rid.clone(),
                    format!("read:{}:sentinel", it.code.family()),
                    "value",
                    format!("sentinel after {:?}({}) decoded as {:?},{:?}", it.code, it.v, o1, o2),
                    item_doc(cfg, items, ix, Some((kind, backend))),
                ));
                break;
            }
            mpos += ref_len(Code::Delta, 5) as usize + 7;
        }
    }
}

/// Replay of a single item (kind "item").
pub fn replay_item(doc: &Value, diag: &Diag) -> (Vec<String>, bool) {
    let e: End = serde_json::from_value(doc["e"].clone()).unwrap();
    let it: Item = serde_json::from_value(doc["item"].clone()).unwrap();
    let readers: Vec<(&'static str, &'static str)> = match doc["reader"].as_array() {
        Some(a) => vec![(crate::rdsys::leak(a[0].as_str().unwrap()), crate::rdsys::leak(a[1].as_str().unwrap()))],
        None => vec![("buf32", "memzx")],
    };
    let cfg = StreamCfg {
        e,
        wbits: doc["wbits"].as_u64().unwrap() as usize,
        offset: doc["offset"].as_u64().unwrap() as usize,
        readers,
        with_disp: doc["with_disp"].as_bool().unwrap_or(false),
        all_read_variants: true,
    };
    let items: Vec<Item> = serde_json::from_value(doc["items"].clone()).unwrap_or(vec![it]);
    let mut out = Outcome::new();
    check_stream(&cfg, &items, diag, &mut out);
    let mut log = vec![format!("history of {} items ending with {:?} in {}", items.len(), it, cfg.id())];
    let wv = write_variants(it.code, it.v);
    log.push(format!("write op: {:?}", wv[it.wvar as usize % wv.len()]));
    log.push(format!("reference codeword: {}", crate::model::encode(it.code, it.v, e).to_string01()));
    for v in &out.violations {
        log.push(format!("{} [{} / {} / {}]: {}", v.property, v.system, v.op_class, v.symptom, v.detail));
    }
    let failed = !out.violations.is_empty();
    (log, failed)
}


/// A codeword that ends exactly with the last bit of a strict stream must decode (through every
/// read variant), leave the reader at the end, and the next read must be an error.
pub fn check_tail_exact(e: End, kind: &'static str, backend: &'static str, code: Code, v: u64, extra_words: usize, diag: &Diag, prop: &str, out: &mut Outcome) {
    let w = match kind {
        "buf8" => 8,
        "buf16" => 16,
        "buf32" => 32,
        _ => 64,
    };
    let cw = crate::model::encode(code, v, e);
    let len = cw.len();
    let p = (w - len % w) % w + extra_words * w;
    let mut bits = Bits::new();
    let mut left = p;
    while left > 0 {
        let c = left.min(61);
        bits.push_field((OFFSET_PAT & ((1u64 << c) - 1)) as u128, c, e);
        left -= c;
    }
    bits.extend(&cw);
    debug_assert_eq!(bits.len() % w, 0);
    let bytes = bits.to_bytes(e, 0);
    let total = bits.len();
    let tables_ok = diag[kind];
    let base = make_reader(e, kind, backend, "", &bytes);
    let rid = format!("{}/{}/{}/tail-exact", e.name(), kind, backend);
    out.cov.evaluations += 1;
    out.cov.nontrivial += 1;
    for (vi, rop) in read_variants(code, false).iter().enumerate() {
        let tb = rop.tables();
        if (0..3).any(|i| tb[i] && !tables_ok[i]) {
            continue;
        }
        let mut rd = base.fork();
        if p > 0 && rd.apply(&ROp::Skip(p as u16)) != RObs::Unit {
            continue;
        }
        let f0 = crate::rd::fault_count();
        let o = rd.apply(rop);
        out.cov.transitions += 1;
        if o == RObs::Err && crate::rd::fault_count() != f0 {
            // an injected Interrupted may be reported as an error (C11)
            continue;
        }
        let mut fail: Option<(&str, String)> = None;
        match &o {
            RObs::Val(x) if *x == v => {
                if let Some(Ok(pp)) = rd.bit_pos() {
                    if pp as usize != total {
                        fail = Some(("position", format!("{:?} left the reader at {} but the stream (and the codeword) ends at {}", rop, pp, total)));
                    }
                }
                if fail.is_none() {
                    let nx = rd.apply(&ROp::ReadBits(1));
                    if nx != RObs::Err {
                        fail = Some(("no-error", format!("after {:?} consumed the last bit, read_bits(1) returned {:?}", rop, nx)));
                    }
                }
            }
            RObs::Val(x) => fail = Some(("value", format!("{:?} returned {} for the codeword of {}", rop, x, v))),
            RObs::Panic(m) => fail = Some(("panic", format!("{:?} panicked: {}", rop, m))),
            other => fail = Some(("error", format!("{:?} -> {:?} although the codeword lies entirely within the data", rop, other))),
        }
        let _ = vi;
        if let Some((sym, det)) = fail {
            if out.violations.len() < 40 {
                let mut ops = vec![];
                if p > 0 {
                    ops.push(ROp::Skip(p as u16));
                }
                ops.push(rop.clone());
                out.violations.push(viol(
                    prop,
                    "tail-exact",
                    rid.clone(),
                    format!("read:{}:{}", code.family(), rop.class()),
                    sym,
                    format!("{:?}({}) as the last {} bits of a strict stream of {} bits: {}", code, v, len, total, det),
                    json!({"kind": "reader", "e": e, "rkind": kind, "backend": backend, "wrapper": "", "image": hex(&bytes), "len_bits": total, "zx": false, "limit": total, "tables_ok": tables_ok, "ops": ops}),
                ));
            }
        }
    }
}
