//! C19: build options change no result; the argument check fires exactly on dirty arguments.
//! This module is compiled into every build variant of the harness (features checks /
//! no_copy_impls, profiles with and without debug assertions); the parent process runs the
//! same reduced explorations in every variant and compares their observation digests.

use crate::images::images;
use crate::model::{Bits, End};
use crate::pool::{run_all, threads, Task};
use crate::props::codes::{items_for, run_streams_pub};
use crate::props::readers::{code_ops, reduced_alphabet};
use crate::props::writers::boundary_alphabet;
use crate::rd::*;
use crate::rdsys::*;
use crate::report::{CheckMeta, Outcome, Violation};
use crate::streams::StreamCfg;
use crate::wr::*;
use crate::wrsys::*;
use crate::Ctx;
use serde_json::json;

pub fn variant_name() -> String {
    format!(
        "{}{}{}",
        if cfg!(feature = "checks") { "checks" } else { "nochecks" },
        if cfg!(feature = "no_copy_impls") { "+no_copy_impls" } else { "" },
        if cfg!(debug_assertions) { "+debug_assertions" } else { "" }
    )
}

fn dirty_panics(ctx: &Ctx) -> Outcome {
    let checks = cfg!(feature = "checks");
    let mut tasks: Vec<Task> = vec![];
    for e in End::BOTH {
        for wbits in WBITS {
            let thorough = ctx.thorough;
            tasks.push(Box::new(move || {
                let mut o = Outcome::new();
                let out = &mut o;
                // every fill level of the buffer (the check must not depend on the path write_bits takes)
                let fills: Vec<usize> = if thorough || wbits <= 64 { (0..wbits).collect() } else { (0..wbits).filter(|f| f % 3 == 0 || *f >= wbits - 66).collect() };
                for fill in fills {
                    for n in 0..=64u8 {
                        let mut cases: Vec<u64> = vec![0, if n == 0 { 0 } else { 1u64 << (n - 1) }, if n == 64 { u64::MAX } else { (1u64 << n) - 1 }];
                        for b in n..64 {
                            cases.push(1u64 << b);
                            if fill < 8 {
                                cases.push((1u64 << b) | if n > 0 { 1 } else { 0 });
                            }
                        }
                        for v in cases {
                            let dirty = n < 64 && (v >> n) != 0;
                            let mut w = make_rec_writer(e, wbits, "");
                            let mut ops = vec![];
                            let mut left = fill;
                            while left > 0 {
                                let c = left.min(64);
                                let op = WOp::WriteBits { v: 0x5A5A_5A5A_5A5A_5A5A & if c == 64 { u64::MAX } else { (1u64 << c) - 1 }, n: c as u8 };
                                w.apply(&op);
                                ops.push(op);
                                left -= c;
                            }
                            let obs = w.apply(&WOp::WriteBits { v, n });
                            ops.push(WOp::WriteBits { v, n });
                            out.cov.evaluations += 1;
                            out.cov.transitions += 1;
                            if dirty {
                                out.cov.nontrivial += 1;
                            }
                            let panicked = matches!(obs, WObs::Panic(_));
                            let want = checks && dirty;
                            if panicked {
                                w.forget();
                            }
                            if panicked != want && out.violations.len() < 20 {
                                out.violations.push(Violation {
                                    property: "C19".into(),
                                    system: "dirty-check".into(),
                                    config: format!("{}/w{}", e.name(), wbits),
                                    op_class: "write_bits".into(),
                                    symptom: if panicked { "panic".into() } else { "no-panic".into() },
                                    detail: format!("write_bits({:#x}, {}) after {} pending bits with checks={} (argument {}): {:?}", v, n, fill, checks, if dirty { "dirty" } else { "clean" }, obs),
                                    replay: json!({"kind": "writer", "e": e, "wbits": wbits, "wrapper": "", "backend": "rec", "finisher": "flush", "ops": ops}),
                                });
                            }
                        }
                    }
                }
                o
            }));
        }
    }
    run_all(tasks, threads())
}

pub fn c19(ctx: &Ctx) -> (CheckMeta, Outcome) {
    let mut total = Outcome::new();
    let seed = ctx.seed;
    // (a) writer state space, clean arguments only
    {
        let mut tasks: Vec<Task> = vec![];
        for e in End::BOTH {
            for wbits in WBITS {
                tasks.push(Box::new(move || {
                    let mut bnd = boundary_alphabet(wbits, seed, false);
                    bnd.extend(crate::props::writers::code_write_ops().into_iter().step_by(3));
                    for len in [0usize, 1, 7, 8, 9, 17] {
                        bnd.push(WOp::IoWrite((0..len).map(|i| (i as u8).wrapping_mul(37).wrapping_add(11)).collect()));
                    }
                    for (k, n) in [(0u16, 5u16), (3, 64), (1, 65), (7, 130)] {
                        for src in [0u8, 3, 4] {
                            for from in [false, true] {
                                bnd.push(WOp::CopyIn { src, k, peek: src == 3, n, from });
                            }
                        }
                    }
                    let alphabets = vec![bnd.clone(), bnd.clone()];
                    let run = WrRun { property: "C19", e, wbits, wrapper: "", depth: 2, alphabets: &alphabets, fixpoint: false, max_states: 500_000, real_backends: true, check_counter: false, leaf_combos: 2 };
                    crate::wrsys::explore(&run)
                }));
            }
        }
        let o = run_all(tasks, threads());
        total.cov.add_extra("digest_writer_model_states", o.cov.extra.get("writer_model_states").and_then(|x| x.as_u64()).unwrap_or(0));
        total.merge(o);
    }
    // (b) reader state space with code reads and copies
    {
        let mut tasks: Vec<Task> = vec![];
        for e in End::BOTH {
            for kind in KINDS {
                for backend in ["memzx", "memstrict"] {
                    let diag = ctx.diag[kind];
                    tasks.push(Box::new(move || {
                        let (w, pk): (usize, usize) = match kind {
                            "buf8" => (8, 8),
                            "buf16" => (16, 16),
                            "buf32" => (32, 32),
                            "buf64" => (64, 64),
                            _ => (64, 32),
                        };
                        let mut alphabet = reduced_alphabet(w, pk);
                        alphabet.extend(code_ops());
                        for n in [0u32, 1, w as u32, w as u32 + 1, 2 * w as u32 + 1, 130] {
                            for wd in [8u8, 64, 128] {
                                for from in [false, true] {
                                    alphabet.push(ROp::Copy { n, wd, prefill: 3, from });
                                }
                            }
                        }
                        for n in [0u16, 1, 8, 9] {
                            alphabet.push(ROp::IoRead(n));
                        }
                        alphabet.push(ROp::SetPos(5));
                        let nbits = 256;
                        let img = &images(e, nbits, seed, false)[1];
                        let model = RdModel { bits: Bits::from_bytes(&img.bytes, e), e, zx: backend == "memzx", limit: nbits + 64, tables_ok: diag };
                        let rd = make_reader(e, kind, backend, "", &img.bytes);
                        let run = RdRun { property: "C19", model: &model, image: &img.bytes, alphabet: &alphabet, max_states: 40_000, check_counter: false, max_depth: 0 };
                        crate::rdsys::explore(&run, rd)
                    }));
                }
            }
        }
        let o = run_all(tasks, threads());
        total.cov.add_extra("digest_reader_model_transitions", o.cov.extra.get("reader_model_transitions").and_then(|x| x.as_u64()).unwrap_or(0));
        total.merge(o);
    }
    // (c) code streams
    {
        let mut cfgs = vec![];
        for e in End::BOTH {
            for w in [8usize, 64, 128] {
                for o in [0usize, 3] {
                    cfgs.push(StreamCfg { e, wbits: w, offset: o, readers: vec![("buf32", "memzx"), ("unbuf", "memstrict"), ("buf16", "memstrict")], with_disp: false, all_read_variants: true });
                }
            }
        }
        let all = crate::grid::all_codes(seed);
        let items = std::sync::Arc::new(items_for(&all, 256, 8, seed, 2, true));
        let mut o = run_streams_pub(cfgs, items, ctx, &["C01", "C03", "C04", "C05", "C06"]);
        for v in o.violations.iter_mut() {
            v.detail = format!("[surfaced as {}] {}", v.property, v.detail);
            v.property = "C19".into();
        }
        total.cov.add_extra("digest_stream_evaluations", o.cov.evaluations);
        total.merge(o);
    }
    // (d) the argument check
    total.merge(dirty_panics(ctx));
    total.cov.configs = total.cov.configs.iter().map(|c| c.clone()).collect();
    total.cov.notes.push(format!("build variant: {}", variant_name()));
    for v in total.violations.iter_mut() {
        if v.property != "C19" {
            v.property = "C19".into();
        }
    }
    let meta = CheckMeta {
        property: "C19".into(),
        level: "model_checking".into(),
        rule: "the harness is built in several variants of the library (features default / checks / no_copy_impls / both, optimised profile and a profile with debug assertions and overflow checks: quick = default, checks+no_copy_impls, checks+debug assertions; thorough = all eight); every variant runs the same reduced explorations restricted to clean arguments: writer BFS depth 2 (boundary write_bits/unary/flush, code writes, io::Write, copy-in from three source kinds), reader BFS to the fixpoint (boundary reads, every code read variant, copies into 8/64/128-bit writers, io::Read, seek), code streams of all codes/parameters on the boundary grid; every observation must match the model (hence all builds agree with each other, and no library-issued write trips the check) and the per-section digests (distinct writer model states, distinct reader model transitions (position, operation), stream evaluations) must be identical across variants (a build that silently explores less is reported); plus write_bits(v, n) for every n in 0..=64, clean v and v with each single bit >= n set, at EVERY fill level of the buffer, all word sizes, both endiannesses: panics iff the checks feature is on and v is dirty".into(),
        assumptions: vec!["same host and toolchain for all variants".into()],
    };
    (meta, total)
}

/// parent-side: per-section digests of all variants must agree
pub fn post_merge(per_variant: &[(String, std::collections::BTreeMap<String, serde_json::Value>)], out: &mut Outcome) {
    // a capped exploration covers an order-dependent part of the space: digests are then not comparable
    let capped = !out.cov.caps_hit.is_empty();
    if capped {
        out.cov.notes.push("a state/wall cap was hit: the cross-build digests are reported but not compared".into());
    }
    for key in ["digest_writer_model_states", "digest_reader_model_transitions", "digest_stream_evaluations"] {
        let vals: Vec<(String, u64)> = per_variant.iter().map(|(n, m)| (n.clone(), m.get(key).and_then(|x| x.as_u64()).unwrap_or(0))).collect();
        if !capped && (vals.iter().any(|x| x.1 != vals[0].1) || vals[0].1 == 0) {
            out.violations.push(Violation {
                property: "C19".into(),
                system: "build-matrix".into(),
                config: "all".into(),
                op_class: key.into(),
                symptom: "digest".into(),
                detail: format!("build variants explored different amounts: {:?}", vals),
                replay: json!({"kind": "none"}),
            });
        }
        out.cov.extra.insert(format!("{}_per_variant", key), json!(vals));
    }
}
