//! Arguments beyond 2^32 bits (C01 write_unary, C02 read_unary / skip_bits, C07 far positions, C08 copies).
//!
//! The streams are synthetic: sources compute their words from the word index and sinks compare (or
//! record only non-zero words) on the fly, so a 2^32-bit operation costs time but no memory.  The
//! expected contents come from the canonical layout, as everywhere else.

use crate::model::End;
use crate::pool::{run_all, threads, Task};
use crate::report::{Outcome, Violation};
use crate::Ctx;
use dsi_bitstream::prelude::*;
use serde_json::json;
use std::cell::RefCell;
use std::collections::BTreeMap;
use std::convert::Infallible;
use std::rc::Rc;

const PAT: u64 = 0xD1B5_4A32_D192_ED03;
const SENT: u64 = 0b1011001;
const SENT_BITS: usize = 7;

/// the i-th 64 stream bits of the dense synthetic stream, first stream bit most significant
fn dense(i: u64) -> u64 {
    let mut z = i.wrapping_add(0x9E37_79B9_7F4A_7C15).wrapping_mul(0xBF58_476D_1CE4_E5B9);
    z ^= z >> 29;
    z = z.wrapping_mul(0x94D0_49BB_1331_11EB);
    z ^ (z >> 32)
}

/// `c <= 64` bits of the dense stream starting at bit `s`, first bit most significant
fn dense_bits(s: u64, c: usize) -> u64 {
    if c == 0 {
        return 0;
    }
    let (i, off) = (s / 64, (s % 64) as usize);
    let both = ((dense(i) as u128) << 64) | dense(i + 1) as u128;
    ((both >> (128 - off - c)) & ((1u128 << c) - 1)) as u64
}

fn canon_bytes(e: End, msb_first: u64) -> [u8; 8] {
    match e {
        End::BE => msb_first.to_be_bytes(),
        End::LE => msb_first.reverse_bits().to_le_bytes(),
    }
}

/// Word source over the dense stream (u64 words), seekable.
#[derive(Debug, Clone)]
struct DenseSrc {
    e: End,
    pos: u64,
}
impl WordRead for DenseSrc {
    type Error = Infallible;
    type Word = u64;
    fn read_word(&mut self) -> Result<u64, Infallible> {
        let b = canon_bytes(self.e, dense(self.pos));
        self.pos += 1;
        Ok(u64::from_ne_bytes(b))
    }
}
impl WordSeek for DenseSrc {
    type Error = Infallible;
    fn word_pos(&mut self) -> Result<u64, Infallible> {
        Ok(self.pos)
    }
    fn set_word_pos(&mut self, p: u64) -> Result<(), Infallible> {
        self.pos = p;
        Ok(())
    }
}

/// Expected destination of a huge copy: `pf` pattern bits, then source bits [k0, k0+n), the sentinel, zeros.
#[derive(Clone, Copy)]
struct CopyPlan {
    e: End,
    pf: u64,
    k0: u64,
    n: u64,
}
impl CopyPlan {
    /// 64 destination bits starting at bit d (multiple of 64), first bit most significant
    fn chunk(&self, d: u64) -> u64 {
        let mut out: u64 = 0;
        let mut filled = 0usize;
        let mut p = d;
        while filled < 64 {
            let room = 64 - filled;
            let (v, c): (u64, usize) = if p < self.pf {
                let c = room.min((self.pf - p) as usize);
                ((PAT.rotate_left((p % 64) as u32) >> (64 - c)) & mask(c), c)
            } else if p < self.pf + self.n {
                let c = (room as u64).min(self.pf + self.n - p) as usize;
                (dense_bits(self.k0 + (p - self.pf), c), c)
            } else if p < self.pf + self.n + SENT_BITS as u64 {
                let done = (p - self.pf - self.n) as usize;
                let c = room.min(SENT_BITS - done);
                ((SENT >> (SENT_BITS - done - c)) & mask(c), c)
            } else {
                (0, room)
            };
            out = if c == 64 { v } else { (out << c) | v };
            filled += c;
            p += c as u64;
        }
        out
    }
}

fn mask(c: usize) -> u64 {
    if c >= 64 {
        u64::MAX
    } else {
        (1u64 << c) - 1
    }
}

#[derive(Default)]
struct SinkState {
    bytes: u64,
    mismatch: Option<String>,
    cache: Option<(u64, [u8; 8])>,
}

/// Word sink that compares every delivered byte with the plan.
struct CheckSink<W> {
    plan: CopyPlan,
    st: Rc<RefCell<SinkState>>,
    _w: std::marker::PhantomData<W>,
}
impl<W: Word> WordWrite for CheckSink<W>
where
    W::Bytes: AsRef<[u8]>,
{
    type Error = Infallible;
    type Word = W;
    fn write_word(&mut self, word: W) -> Result<(), Infallible> {
        use common_traits::ToBytes;
        let nb = <W as ToBytes>::to_ne_bytes(word);
        let mut st = self.st.borrow_mut();
        for &b in nb.as_ref() {
            let at = st.bytes;
            if st.mismatch.is_none() {
                let g = at / 8;
                let chunk = match st.cache {
                    Some((cg, c)) if cg == g => c,
                    _ => {
                        let c = canon_bytes(self.plan.e, self.plan.chunk(g * 64));
                        st.cache = Some((g, c));
                        c
                    }
                };
                let exp = chunk[(at % 8) as usize];
                if exp != b {
                    st.mismatch = Some(format!("destination byte {} is {:#04x}, expected {:#04x}", at, b, exp));
                }
            }
            st.bytes += 1;
        }
        Ok(())
    }
    fn flush(&mut self) -> Result<(), Infallible> {
        Ok(())
    }
}

fn prefill_ops<E: Endianness, Wr: BitWrite<E>>(w: &mut Wr, pf: u64, e: End) {
    let mut p = 0u64;
    while p < pf {
        let c = (pf - p).min(64) as usize;
        let msb_first = (PAT.rotate_left((p % 64) as u32) >> (64 - c)) & mask(c);
        let v = match e {
            End::BE => msb_first,
            End::LE => msb_first.reverse_bits() >> (64 - c),
        };
        let _ = w.write_bits(v, c);
        p += c as u64;
    }
}

fn sentinel_value(e: End) -> u64 {
    match e {
        End::BE => SENT,
        End::LE => SENT.reverse_bits() >> (64 - SENT_BITS),
    }
}

fn viol(prop: &str, system: &str, cfg: &str, class: &str, symptom: &str, detail: String, recipe: serde_json::Value) -> Violation {
    Violation {
        property: prop.into(),
        system: system.into(),
        config: cfg.into(),
        op_class: class.into(),
        symptom: symptom.into(),
        detail,
        replay: json!({"kind": "none", "note": "re-run the check; recipe below", "recipe": recipe}),
    }
}

/// C08: copies of 2^32 bits and more, source = buffered reader over the dense stream (u64 words),
/// destination = buffered writer over a comparing sink.
pub fn c08_huge(ctx: &Ctx) -> Outcome {
    let mut tasks: Vec<Task> = vec![];
    let ns: Vec<u64> = if ctx.thorough { vec![(1 << 32) - 1, 1 << 32, (1 << 32) + 3, (1 << 32) + 64, 3 * (1u64 << 31) + 17] } else { vec![1 << 32, (1 << 32) + 3] };
    let starts: Vec<(u64, u64)> = if ctx.thorough { vec![(0, 0), (5, 0), (0, 7), (13, 61), (64, 127)] } else { vec![(5, 0), (13, 7)] };
    let wds: Vec<usize> = if ctx.thorough { vec![32, 64, 128] } else { vec![64] };
    for e in End::BOTH {
        for from in [false, true] {
            for &n in &ns {
                for &(k0, pf) in &starts {
                    for &wd in &wds {
                        if pf >= wd as u64 && pf != 127 {
                            // prefill levels are meant to leave the destination buffer partly filled
                        }
                        tasks.push(Box::new(move || {
                            let mut out = Outcome::new();
                            let cfg = format!("{}/huge-copy/{}/w{}", e.name(), if from { "copy_from" } else { "copy_to" }, wd);
                            out.cov.configs.insert(cfg.clone());
                            let plan = CopyPlan { e, pf, k0, n };
                            let recipe = json!({"e": e, "from": from, "n": n, "source_skip": k0, "dest_prefill": pf, "dest_word": wd});
                            macro_rules! go {
                                ($E:ty, $W:ty) => {{
                                    let st = Rc::new(RefCell::new(SinkState::default()));
                                    let sink = CheckSink::<$W> { plan, st: st.clone(), _w: std::marker::PhantomData };
                                    let mut dst = BufBitWriter::<$E, CheckSink<$W>>::new(sink);
                                    let mut src = BufBitReader::<$E, DenseSrc>::new(DenseSrc { e, pos: 0 });
                                    let r = std::panic::catch_unwind(std::panic::AssertUnwindSafe(|| -> Result<u64, String> {
                                        src.skip_bits(k0 as usize).map_err(|e| format!("{e}"))?;
                                        prefill_ops::<$E, _>(&mut dst, pf, e);
                                        if from {
                                            dst.copy_from(&mut src, n).map_err(|e| format!("{e}"))?;
                                        } else {
                                            src.copy_to(&mut dst, n).map_err(|e| format!("{e}"))?;
                                        }
                                        dst.write_bits(sentinel_value(e), SENT_BITS).map_err(|e| format!("{e}"))?;
                                        BitWrite::<$E>::flush(&mut dst).map_err(|e| format!("{e}"))?;
                                        let sp = BitSeek::bit_pos(&mut src).map_err(|e| format!("{e}"))?;
                                        // the source must continue with the bits after the copied ones
                                        let next = src.read_bits(64).map_err(|e| format!("{e}"))?;
                                        let exp = dense_bits(k0 + n, 64);
                                        let exp = match e {
                                            End::BE => exp,
                                            End::LE => exp.reverse_bits(),
                                        };
                                        if next != exp {
                                            return Err(format!("the source continues with {:#x}, expected {:#x}", next, exp));
                                        }
                                        Ok(sp)
                                    }));
                                    std::mem::forget(dst);
                                    let st = st.borrow();
                                    (r, st.bytes, st.mismatch.clone())
                                }};
                            }
                            let (r, bytes, mismatch) = match (e, wd) {
                                (End::BE, 32) => go!(BE, u32),
                                (End::BE, 64) => go!(BE, u64),
                                (End::BE, _) => go!(BE, u128),
                                (End::LE, 32) => go!(LE, u32),
                                (End::LE, 64) => go!(LE, u64),
                                (End::LE, _) => go!(LE, u128),
                            };
                            out.cov.evaluations += 1;
                            out.cov.nontrivial += 1;
                            out.cov.transitions += n / 64;
                            let total_bits = pf + n + SENT_BITS as u64;
                            let exp_bytes = total_bits.div_ceil(wd as u64) * (wd as u64 / 8);
                            let class = if from { "copy_from" } else { "copy_to" };
                            match r {
                                Err(p) => out.violations.push(viol("C08", "huge-copy", &cfg, class, "panic", format!("n = {}: {}", n, crate::util::panic_msg(&p)), recipe)),
                                Ok(Err(m)) => out.violations.push(viol("C08", "huge-copy", &cfg, class, "value", format!("n = {}: {}", n, m), recipe)),
                                Ok(Ok(sp)) => {
                                    if let Some(m) = mismatch {
                                        out.violations.push(viol("C08", "huge-copy", &cfg, class, "bytes", format!("n = {}: {}", n, m), recipe));
                                    } else if bytes != exp_bytes {
                                        out.violations.push(viol("C08", "huge-copy", &cfg, class, "bytes", format!("n = {}: {} bytes reached the destination, expected {}", n, bytes, exp_bytes), recipe));
                                    } else if sp != k0 + n {
                                        out.violations.push(viol("C08", "huge-copy", &cfg, class, "position", format!("n = {}: source at bit {} after the copy, expected {}", n, sp, k0 + n), recipe));
                                    }
                                }
                            }
                            out
                        }));
                    }
                }
            }
        }
    }
    run_all(tasks, threads())
}

/// Sparse stream: zeros except for listed one-bits.
fn sparse_word_bytes(e: End, ones: &[u64], word_bytes: usize) -> BTreeMap<u64, Vec<u8>> {
    let mut m: BTreeMap<u64, Vec<u8>> = BTreeMap::new();
    for &p in ones {
        let byte = p / 8;
        let w = byte / word_bytes as u64;
        let v = m.entry(w).or_insert_with(|| vec![0u8; word_bytes]);
        let bit = match e {
            End::BE => 7 - (p % 8),
            End::LE => p % 8,
        };
        v[(byte % word_bytes as u64) as usize] |= 1 << bit;
    }
    m
}

#[derive(Default)]
struct SparseState {
    words: u64,
    nonzero: BTreeMap<u64, Vec<u8>>,
}
struct SparseSink<W> {
    st: Rc<RefCell<SparseState>>,
    _w: std::marker::PhantomData<W>,
}
impl<W: Word> WordWrite for SparseSink<W>
where
    W::Bytes: AsRef<[u8]>,
{
    type Error = Infallible;
    type Word = W;
    fn write_word(&mut self, word: W) -> Result<(), Infallible> {
        use common_traits::ToBytes;
        let mut st = self.st.borrow_mut();
        if word != W::ZERO && st.nonzero.len() < 64 {
            let i = st.words;
            st.nonzero.insert(i, <W as ToBytes>::to_ne_bytes(word).as_ref().to_vec());
        }
        st.words += 1;
        Ok(())
    }
    fn flush(&mut self) -> Result<(), Infallible> {
        Ok(())
    }
}

#[derive(Debug, Clone)]
struct SparseSrc<W> {
    words: Rc<BTreeMap<u64, Vec<u8>>>,
    pos: u64,
    _w: std::marker::PhantomData<W>,
}
impl<W: Word> WordRead for SparseSrc<W>
where
    W::Bytes: AsMut<[u8]> + Default,
{
    type Error = Infallible;
    type Word = W;
    fn read_word(&mut self) -> Result<W, Infallible> {
        use common_traits::FromBytes;
        let w = match self.words.get(&self.pos) {
            None => W::ZERO,
            Some(b) => {
                let mut a: W::Bytes = Default::default();
                a.as_mut().copy_from_slice(b);
                <W as FromBytes>::from_ne_bytes(a)
            }
        };
        self.pos += 1;
        Ok(w)
    }
}
impl<W: Word> WordSeek for SparseSrc<W> {
    type Error = Infallible;
    fn word_pos(&mut self) -> Result<u64, Infallible> {
        Ok(self.pos)
    }
    fn set_word_pos(&mut self, p: u64) -> Result<(), Infallible> {
        self.pos = p;
        Ok(())
    }
}

/// positions of the one-bits of: f pattern bits, x zeros, a one, the sentinel
fn unary_ones(f: u64, x: u64) -> Vec<u64> {
    let mut ones = vec![];
    for j in 0..f {
        if (PAT.rotate_left((j % 64) as u32) >> 63) & 1 == 1 {
            ones.push(j);
        }
    }
    ones.push(f + x);
    for j in 0..SENT_BITS as u64 {
        if (SENT >> (SENT_BITS as u64 - 1 - j)) & 1 == 1 {
            ones.push(f + x + 1 + j);
        }
    }
    ones
}

fn huge_xs(wbits: u64, thorough: bool) -> Vec<u64> {
    let t = 1u64 << 32;
    let mut v = vec![t - 2, t - 1, t, t + 1, t + wbits - 2, t + wbits];
    if thorough {
        v.extend([t + wbits / 2, 2 * t - 1, 2 * t + 4, 3 * t + wbits - 2]);
    }
    v
}

/// C01: write_unary(x) for x around and beyond 2^32 at several buffer fill levels.
pub fn c01_huge(ctx: &Ctx) -> Outcome {
    let mut tasks: Vec<Task> = vec![];
    let wbs: Vec<usize> = if ctx.thorough { vec![8, 16, 32, 64, 128] } else { vec![32, 64, 128] };
    for e in End::BOTH {
        for &wb in &wbs {
            for x in huge_xs(wb as u64, ctx.thorough) {
                for f in [0u64, 1, wb as u64 / 2, wb as u64 - 1] {
                    tasks.push(Box::new(move || {
                        let mut out = Outcome::new();
                        let cfg = format!("{}/w{}/huge-unary", e.name(), wb);
                        out.cov.configs.insert(cfg.clone());
                        let recipe = json!({"e": e, "word_bits": wb, "prefix_bits": f, "x": x});
                        macro_rules! go {
                            ($E:ty, $W:ty) => {{
                                let st = Rc::new(RefCell::new(SparseState::default()));
                                let mut w = BufBitWriter::<$E, SparseSink<$W>>::new(SparseSink { st: st.clone(), _w: std::marker::PhantomData });
                                let r = std::panic::catch_unwind(std::panic::AssertUnwindSafe(|| -> Result<usize, String> {
                                    prefill_ops::<$E, _>(&mut w, f, e);
                                    let ret = w.write_unary(x).map_err(|e| format!("{e}"))?;
                                    w.write_bits(sentinel_value(e), SENT_BITS).map_err(|e| format!("{e}"))?;
                                    BitWrite::<$E>::flush(&mut w).map_err(|e| format!("{e}"))?;
                                    Ok(ret)
                                }));
                                std::mem::forget(w);
                                let s = st.borrow();
                                (r, s.words, s.nonzero.clone())
                            }};
                        }
                        let (r, words, nonzero) = match (e, wb) {
                            (End::BE, 8) => go!(BE, u8),
                            (End::BE, 16) => go!(BE, u16),
                            (End::BE, 32) => go!(BE, u32),
                            (End::BE, 64) => go!(BE, u64),
                            (End::BE, _) => go!(BE, u128),
                            (End::LE, 8) => go!(LE, u8),
                            (End::LE, 16) => go!(LE, u16),
                            (End::LE, 32) => go!(LE, u32),
                            (End::LE, 64) => go!(LE, u64),
                            (End::LE, _) => go!(LE, u128),
                        };
                        out.cov.evaluations += 1;
                        out.cov.nontrivial += 1;
                        out.cov.transitions += 4;
                        let exp_words = (f + x + 1 + SENT_BITS as u64).div_ceil(wb as u64);
                        let exp_nonzero = sparse_word_bytes(e, &unary_ones(f, x), wb / 8);
                        match r {
                            Err(p) => out.violations.push(viol("C01", "huge-unary", &cfg, "write_unary", "panic", format!("x = {}: {}", x, crate::util::panic_msg(&p)), recipe)),
                            Ok(Err(m)) => out.violations.push(viol("C01", "huge-unary", &cfg, "write_unary", "error", format!("x = {}: {}", x, m), recipe)),
                            Ok(Ok(ret)) => {
                                if ret as u64 != x + 1 {
                                    out.violations.push(viol("C01", "huge-unary", &cfg, "write_unary", "value", format!("write_unary({}) returned {}", x, ret), recipe));
                                } else if words != exp_words {
                                    out.violations.push(viol("C01", "huge-unary", &cfg, "write_unary", "bytes", format!("write_unary({}) after {} bits: {} words delivered, expected {}", x, f, words, exp_words), recipe));
                                } else if nonzero != exp_nonzero {
                                    out.violations.push(viol("C01", "huge-unary", &cfg, "write_unary", "bytes", format!("write_unary({}) after {} bits: non-zero words {:?}, expected {:?}", x, f, nonzero.keys().collect::<Vec<_>>(), exp_nonzero.keys().collect::<Vec<_>>()), recipe));
                                }
                            }
                        }
                        out
                    }));
                }
            }
        }
    }
    run_all(tasks, threads())
}

/// C02 / C07: read_unary, skip_bits and seeks with arguments around and beyond 2^32 over the sparse
/// stream; bit_pos after every step.
pub fn read_huge(prop: &'static str, ctx: &Ctx) -> Outcome {
    let mut tasks: Vec<Task> = vec![];
    let kinds: Vec<&'static str> = if ctx.thorough { vec!["buf8", "buf16", "buf32", "buf64", "unbuf"] } else { vec!["buf32", "buf64", "unbuf"] };
    for e in End::BOTH {
        for &kind in &kinds {
            let wb: u64 = match kind {
                "buf8" => 8,
                "buf16" => 16,
                "buf32" => 32,
                _ => 64,
            };
            for x in huge_xs(wb, ctx.thorough) {
                for f in [0u64, 1, wb / 2, wb - 1] {
                    tasks.push(Box::new(move || {
                        let mut out = Outcome::new();
                        let cfg = format!("{}/{}/huge-read", e.name(), kind);
                        out.cov.configs.insert(cfg.clone());
                        let recipe = json!({"e": e, "reader": kind, "prefix_bits": f, "x": x});
                        let ones = unary_ones(f, x);
                        macro_rules! go {
                            ($R:ident, $E:ty, $W:ty) => {{
                                let words = Rc::new(sparse_word_bytes(e, &ones, std::mem::size_of::<$W>()));
                                let mut r = $R::<$E, SparseSrc<$W>>::new(SparseSrc { words, pos: 0, _w: std::marker::PhantomData });
                                std::panic::catch_unwind(std::panic::AssertUnwindSafe(|| -> Result<(), String> {
                                    let pfx = |p: u64, c: usize| -> u64 {
                                        let m = (PAT.rotate_left((p % 64) as u32) >> (64 - c)) & mask(c);
                                        match e {
                                            End::BE => m,
                                            End::LE => m.reverse_bits() >> (64 - c),
                                        }
                                    };
                                    let posck = |r: &mut $R<$E, SparseSrc<$W>>, want: u64, what: &str| -> Result<(), String> {
                                        // C07 owns positions.  Under C02 a wrong position must not end the run before
                                        // the VALUES read next have been compared (a skip that lands in the wrong place
                                        // is a C02 violation through the bits that follow it).
                                        if prop != "C07" {
                                            return Ok(());
                                        }
                                        let p = BitSeek::bit_pos(r).map_err(|e| format!("{e}"))?;
                                        if p != want {
                                            return Err(format!("POSITION bit_pos() = {} after {}, expected {}", p, what, want));
                                        }
                                        Ok(())
                                    };
                                    // 1. sequential: prefix, the unary code, the sentinel
                                    if f > 0 {
                                        let c = f.min(64) as usize;
                                        let v = r.read_bits(c).map_err(|e| format!("{e}"))?;
                                        if v != pfx(0, c) {
                                            return Err(format!("prefix read {:#x}, expected {:#x}", v, pfx(0, c)));
                                        }
                                        if f > 64 {
                                            r.skip_bits((f - 64) as usize).map_err(|e| format!("{e}"))?;
                                        }
                                    }
                                    let u = r.read_unary().map_err(|e| format!("{e}"))?;
                                    if u != x {
                                        return Err(format!("read_unary returned {}, expected {}", u, x));
                                    }
                                    posck(&mut r, f + x + 1, "read_unary")?;
                                    let s = r.read_bits(SENT_BITS).map_err(|e| format!("{e}"))?;
                                    if s != sentinel_value(e) {
                                        return Err(format!("after read_unary({}) the next 7 bits are {:#b}", x, s));
                                    }
                                    // 2. seek back, skip over the zeros
                                    BitSeek::set_bit_pos(&mut r, f).map_err(|e| format!("{e}"))?;
                                    posck(&mut r, f, "set_bit_pos")?;
                                    r.skip_bits(x as usize).map_err(|e| format!("{e}"))?;
                                    posck(&mut r, f + x, "skip_bits")?;
                                    let one = r.read_bits(1).map_err(|e| format!("{e}"))?;
                                    let s = r.read_bits(SENT_BITS).map_err(|e| format!("{e}"))?;
                                    if one != 1 || s != sentinel_value(e) {
                                        return Err(format!("after skip_bits({}) the next bits are {} {:#b}", x, one, s));
                                    }
                                    // 3. far seeks: into the zero run close to its end, and onto the sentinel
                                    for back in [3u64, 64 + 5, 200] {
                                        if back <= x {
                                            BitSeek::set_bit_pos(&mut r, f + x - back).map_err(|e| format!("{e}"))?;
                                            posck(&mut r, f + x - back, "set_bit_pos")?;
                                            let u = r.read_unary().map_err(|e| format!("{e}"))?;
                                            if u != back {
                                                return Err(format!("POSITION after set_bit_pos({}) read_unary returned {}, expected {}", f + x - back, u, back));
                                            }
                                            posck(&mut r, f + x + 1, "read_unary")?;
                                        }
                                    }
                                    BitSeek::set_bit_pos(&mut r, f + x + 1).map_err(|e| format!("{e}"))?;
                                    let s = r.read_bits(SENT_BITS).map_err(|e| format!("{e}"))?;
                                    if s != sentinel_value(e) {
                                        return Err(format!("POSITION after set_bit_pos({}) the next 7 bits are {:#b}", f + x + 1, s));
                                    }
                                    posck(&mut r, f + x + 1 + SENT_BITS as u64, "read_bits")?;
                                    Ok(())
                                }))
                            }};
                        }
                        let r = match (e, kind) {
                            (End::BE, "buf8") => go!(BufBitReader, BE, u8),
                            (End::BE, "buf16") => go!(BufBitReader, BE, u16),
                            (End::BE, "buf32") => go!(BufBitReader, BE, u32),
                            (End::BE, "buf64") => go!(BufBitReader, BE, u64),
                            (End::BE, _) => go!(BitReader, BE, u64),
                            (End::LE, "buf8") => go!(BufBitReader, LE, u8),
                            (End::LE, "buf16") => go!(BufBitReader, LE, u16),
                            (End::LE, "buf32") => go!(BufBitReader, LE, u32),
                            (End::LE, "buf64") => go!(BufBitReader, LE, u64),
                            (End::LE, _) => go!(BitReader, LE, u64),
                        };
                        out.cov.evaluations += 1;
                        out.cov.nontrivial += 1;
                        out.cov.transitions += 14;
                        match r {
                            Err(p) => out.violations.push(viol(prop, "huge-read", &cfg, "read_unary", "panic", format!("x = {}: {}", x, crate::util::panic_msg(&p)), recipe)),
                            Ok(Err(m)) => {
                                let positional = m.starts_with("POSITION");
                                // C02 owns values, C07 owns positions and seeks
                                if (prop == "C07") == positional {
                                    out.violations.push(viol(prop, "huge-read", &cfg, if positional { "set_bit_pos" } else { "read_unary" }, if positional { "position" } else { "value" }, format!("x = {}, {} prefix bits: {}", x, f, m), recipe));
                                }
                            }
                            Ok(Ok(())) => {}
                        }
                        out
                    }));
                }
            }
        }
    }
    run_all(tasks, threads())
}
