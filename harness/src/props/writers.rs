//! C01 / C12(write) / C08(destination view) / C14(write): writer state spaces.

use crate::model::End;
use crate::pool::{run_all, threads, Task};
use crate::report::{CheckMeta, Outcome};
use crate::util::Rng;
use crate::wr::*;
use crate::wrsys::*;
use crate::Ctx;
use std::collections::BTreeSet;

pub fn value_patterns(seed: u64) -> [u64; 4] {
    let mut r = Rng::new(seed ^ 0x57A7);
    [0, u64::MAX, 0xA5A5_5A5A_C33C_0FF0, r.next() | 1]
}

fn mask(n: u8) -> u64 {
    if n >= 64 {
        u64::MAX
    } else {
        (1u64 << n) - 1
    }
}

/// every n in 0..=64 x 4 value patterns x {clean, all bits >= n set}
pub fn full_write_bits(seed: u64, dirty: bool) -> Vec<WOp> {
    let mut s = BTreeSet::new();
    for n in 0..=64u8 {
        for p in value_patterns(seed) {
            let clean = p & mask(n);
            s.insert(WOp::WriteBits { v: clean, n });
            if dirty && n < 64 {
                s.insert(WOp::WriteBits { v: clean | (u64::MAX << n), n });
                s.insert(WOp::WriteBits { v: clean | (1u64 << n), n });
            }
        }
    }
    s.into_iter().collect()
}

pub fn full_unary(w: usize) -> Vec<WOp> {
    let mut s = BTreeSet::new();
    for x in 0..=(2 * w + 1) as u64 {
        s.insert(WOp::Unary(x));
    }
    for x in [3 * w - 1, 3 * w, 3 * w + 1, 5 * w + 3] {
        s.insert(WOp::Unary(x as u64));
    }
    s.into_iter().collect()
}

pub fn full_alphabet(w: usize, seed: u64, dirty: bool) -> Vec<WOp> {
    let mut a = full_write_bits(seed, dirty);
    a.extend(full_unary(w));
    a.push(WOp::Flush);
    a
}

pub fn boundary_alphabet(w: usize, seed: u64, dirty: bool) -> Vec<WOp> {
    let pats = value_patterns(seed);
    let mut s = BTreeSet::new();
    for n in [0usize, 1, 2, 7, 8, 9, w - 1, w, w + 1, 2 * w - 1, 63, 64] {
        if n > 64 {
            continue;
        }
        let n = n as u8;
        s.insert(WOp::WriteBits { v: pats[3] & mask(n), n });
        if dirty && n < 64 {
            s.insert(WOp::WriteBits { v: (pats[2] & mask(n)) | (u64::MAX << n), n });
        } else {
            s.insert(WOp::WriteBits { v: pats[2] & mask(n), n });
        }
    }
    for x in [0usize, 1, w.saturating_sub(2), w - 1, w, 2 * w, 3 * w] {
        s.insert(WOp::Unary(x as u64));
    }
    let mut a: Vec<WOp> = s.into_iter().collect();
    a.push(WOp::Flush);
    a
}

pub fn c01(ctx: &Ctx) -> (CheckMeta, Outcome) {
    let mut tasks: Vec<Task> = vec![];
    for e in End::BOTH {
        for wbits in WBITS {
            let seed = ctx.seed;
            let thorough = ctx.thorough;
            tasks.push(Box::new(move || {
                let full = full_alphabet(wbits, seed, true);
                let bnd = boundary_alphabet(wbits, seed, true);
                let mut out = Outcome::new();
                // bounded-depth exploration with real-backend replays at every node
                let alphabets = if thorough { vec![full.clone(), full.clone(), full.clone(), bnd.clone()] } else { vec![full.clone(), full.clone(), bnd.clone()] };
                let run = WrRun {
                    property: "C01",
                    e,
                    wbits,
                    wrapper: "",
                    depth: alphabets.len(),
                    alphabets: &alphabets,
                    fixpoint: false,
                    max_states: 3_000_000,
                    real_backends: true,
                    check_counter: false,
                };
                out.merge(explore(&run));
                // fixpoint (whole reachable space) for the 8-bit writer
                if wbits == 8 {
                    let alph = vec![if thorough { full.clone() } else { bnd.clone() }];
                    let run = WrRun { property: "C01", e, wbits, wrapper: "", depth: 0, alphabets: &alph, fixpoint: true, max_states: 2_000_000, real_backends: false, check_counter: false };
                    let o = explore(&run);
                    out.cov.notes.push(format!("{}: fixpoint of the 8-bit writer reached with {} states", cfg_id(e, wbits, ""), o.cov.states));
                    out.merge(o);
                }
                out
            }));
        }
    }
    let out = run_all(tasks, threads());
    let meta = CheckMeta {
        property: "C01",
        level: "model_checking",
        rule: "explicit-state BFS over the real BufBitWriter (recording backend; state = Debug string (buffer, space_left) + model pending bits; rebuilt by replaying the shortest history) for E x W in {8,16,32,64,128}; alphabet write_bits(n 0..=64 x 4 value patterns x {clean, bit n set, all bits >= n set}), write_unary(0..=2W+1, 3W-1, 3W, 3W+1, 5W+3), flush; every transition: return value and words delivered during the step vs the bit-vector model; every node's history is replayed on vec/vecref/slice/adapter/rec backends with flush, flush;flush, into_inner, drop and the whole byte image compared (traces_validated_against_impl counts these replays)".into(),
        assumptions: vec!["reference model = canonical layout (harness/src/model.rs)".into(), "by parametricity in the WordWrite backend the writer's future depends on (buffer, space_left) only".into()],
    };
    (meta, out)
}
