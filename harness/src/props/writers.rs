//! C01 / C12(write) / C08(destination view) / C14(write): writer state spaces.

use crate::model::End;
use crate::pool::{run_all, threads, Task};
use crate::report::{CheckMeta, Outcome};
use crate::util::Rng;
use crate::wr::*;
use crate::wrsys::*;
use crate::Ctx;
use std::collections::BTreeSet;

pub fn value_patterns(seed: u64) -> [u64; 4] {
    let mut r = Rng::new(seed ^ 0x57A7);
    [0, u64::MAX, 0xA5A5_5A5A_C33C_0FF0, r.next() | 1]
}

fn mask(n: u8) -> u64 {
    if n >= 64 {
        u64::MAX
    } else {
        (1u64 << n) - 1
    }
}

/// every n in 0..=64 x 4 value patterns x {clean, all bits >= n set}
pub fn full_write_bits(seed: u64, dirty: bool) -> Vec<WOp> {
    let mut s = BTreeSet::new();
    for n in 0..=64u8 {
        for p in value_patterns(seed) {
            let clean = p & mask(n);
            s.insert(WOp::WriteBits { v: clean, n });
            if dirty && n < 64 {
                s.insert(WOp::WriteBits { v: clean | (u64::MAX << n), n });
                s.insert(WOp::WriteBits { v: clean | (1u64 << n), n });
            }
        }
    }
    s.into_iter().collect()
}

pub fn full_unary(w: usize) -> Vec<WOp> {
    let mut s = BTreeSet::new();
    for x in 0..=(2 * w + 1) as u64 {
        s.insert(WOp::Unary(x));
    }
    for x in [3 * w - 1, 3 * w, 3 * w + 1, 5 * w + 3] {
        s.insert(WOp::Unary(x as u64));
    }
    s.into_iter().collect()
}

pub fn full_alphabet(w: usize, seed: u64, dirty: bool) -> Vec<WOp> {
    let mut a = full_write_bits(seed, dirty);
    a.extend(full_unary(w));
    a.push(WOp::Flush);
    a
}

pub fn boundary_alphabet(w: usize, seed: u64, dirty: bool) -> Vec<WOp> {
    let pats = value_patterns(seed);
    let mut s = BTreeSet::new();
    for n in [0usize, 1, 2, 7, 8, 9, w - 1, w, w + 1, 2 * w - 1, 63, 64] {
        if n > 64 {
            continue;
        }
        let n = n as u8;
        s.insert(WOp::WriteBits { v: pats[3] & mask(n), n });
        if dirty && n < 64 {
            s.insert(WOp::WriteBits { v: (pats[2] & mask(n)) | (u64::MAX << n), n });
        } else {
            s.insert(WOp::WriteBits { v: pats[2] & mask(n), n });
        }
    }
    for x in [0usize, 1, w.saturating_sub(2), w - 1, w, 2 * w, 3 * w] {
        s.insert(WOp::Unary(x as u64));
    }
    let mut a: Vec<WOp> = s.into_iter().collect();
    a.push(WOp::Flush);
    a
}

pub fn c01(ctx: &Ctx) -> (CheckMeta, Outcome) {
    let mut tasks: Vec<Task> = vec![];
    for e in End::BOTH {
        for wbits in WBITS {
            let seed = ctx.seed;
            let thorough = ctx.thorough;
            tasks.push(Box::new(move || {
                // dirty arguments (bits above n set) are part of the alphabet unless this build of the
                // library rejects them by design (feature `checks`, see C19)
                let dirty = !cfg!(feature = "checks");
                let full = full_alphabet(wbits, seed, dirty);
                let bnd = boundary_alphabet(wbits, seed, dirty);
                let mut out = Outcome::new();
                // bounded-depth exploration with real-backend replays at every node
                let alphabets = if thorough { vec![full.clone(), full.clone(), full.clone(), bnd.clone()] } else { vec![full.clone(), full.clone(), bnd.clone()] };
                let run = WrRun {
                    property: "C01",
                    e,
                    wbits,
                    wrapper: "",
                    depth: alphabets.len(),
                    alphabets: &alphabets,
                    fixpoint: false,
                    max_states: 3_000_000,
                    real_backends: true,
                    check_counter: false,
                    leaf_combos: if thorough { 28 } else { 4 },
                };
                out.merge(explore(&run));
                // deep and narrow: long histories over a 7-letter alphabet (depth 7, thorough 9)
                {
                    let narrow = vec![
                        WOp::WriteBits { v: 1, n: 1 },
                        WOp::WriteBits { v: if dirty { u64::MAX } else { mask((wbits.min(64) - 1) as u8) }, n: (wbits.min(64) - 1) as u8 },
                        WOp::WriteBits { v: value_patterns(seed)[3], n: 64 },
                        WOp::WriteBits { v: if dirty { 0x2B | (u64::MAX << 7) } else { 0x2B }, n: 7 },
                        WOp::Unary(0),
                        WOp::Unary(wbits as u64),
                        WOp::Flush,
                    ];
                    let d = if thorough { 9 } else { 7 };
                    let alph = vec![narrow];
                    let run = WrRun { property: "C01", e, wbits, wrapper: "", depth: d, alphabets: &alph, fixpoint: false, max_states: 6_000_000, real_backends: true, check_counter: false, leaf_combos: 1 };
                    let o = explore(&run);
                    out.cov.notes.push(format!("{}: deep-narrow exploration to depth {}: {} states", cfg_id(e, wbits, ""), d, o.cov.states));
                    out.merge(o);
                }
                // fixpoint (whole reachable space) for the 8-bit writer
                if wbits == 8 {
                    let alph = vec![if thorough { full.clone() } else { bnd.clone() }];
                    let run = WrRun { property: "C01", e, wbits, wrapper: "", depth: 0, alphabets: &alph, fixpoint: true, max_states: 2_000_000, real_backends: false, check_counter: false, leaf_combos: 28 };
                    let o = explore(&run);
                    out.cov.notes.push(format!("{}: fixpoint of the 8-bit writer reached with {} states", cfg_id(e, wbits, ""), o.cov.states));
                    out.merge(o);
                }
                out
            }));
        }
    }
    let mut out = run_all(tasks, threads());
    out.merge(long_histories("C01", ctx, false));
    out.merge(crate::props::huge::c01_huge(ctx));
    if crate::pool::is_primary() {
        native_alias("C01", &mut out);
    }
    let meta = CheckMeta {
        property: "C01".into(),
        level: "model_checking".into(),
        rule: "explicit-state BFS over the real BufBitWriter (recording backend; state = Debug string (buffer, space_left) + model pending bits; rebuilt by replaying the shortest history) for E x W in {8,16,32,64,128}; alphabet write_bits(n 0..=64 x 4 value patterns x {clean, bit n set, all bits >= n set}), write_unary(0..=2W+1, 3W-1, 3W, 3W+1, 5W+3), flush; every transition: return value and words delivered during the step vs the bit-vector model; every node's history is replayed on vec/vecref/slice/adapter/adapter-over-a-3-byte-sink/adapter-over-a-lazy-sink (commits on flush only)/rec/vec-over-a-pre-filled-vector backends with flush, flush;flush, into_inner, drop, drop-while-unwinding and the whole byte image compared (traces_validated_against_impl counts these replays); plus a deep-and-narrow exploration (7-letter alphabet: 1 bit, W-1 ones, 64 bits, 7 dirty bits, unary 0, unary W, flush; depth 7, thorough 9); plus long streams: unary codes of 32 767..70 001 zeros (thorough up to 262 149), alone, between writes and across a flush, and 1 200 fixed-width writes, on every real backend; plus unary codes around and beyond 2^32 (x in 2^32-2, 2^32-1, 2^32, 2^32+1, 2^32+W-2, 2^32+W; thorough more and all word sizes) after 0, 1, W/2, W-1 pending bits into a sink that keeps only the non-zero words and the word count; the NativeEndian/NE aliases must denote the host's endianness (a writer and a reader instantiated through them vs the model of that endianness)".into(),
        assumptions: vec!["reference model = canonical layout (harness/src/model.rs)".into(), "by parametricity in the WordWrite backend the writer's future depends on (buffer, space_left) only".into()],
    };
    (meta, out)
}

fn io_patterns(len: usize) -> [Vec<u8>; 2] {
    let a: Vec<u8> = (0..len).map(|i| (0x90u8).wrapping_add((i as u8).wrapping_mul(0x3B)) | 1).collect();
    let b: Vec<u8> = (0..len).map(|i| if i % 3 == 0 { 0xFF } else { (i as u8).wrapping_mul(0x71) }).collect();
    [a, b]
}

pub fn c12(ctx: &Ctx) -> (CheckMeta, Outcome) {
    let mut tasks: Vec<Task> = vec![];
    for e in End::BOTH {
        for wbits in WBITS {
            let seed = ctx.seed;
            let thorough = ctx.thorough;
            tasks.push(Box::new(move || {
                let pats = value_patterns(seed);
                let bnd = boundary_alphabet(wbits, seed, false);
                let mut io_all: Vec<WOp> = vec![];
                for len in 0..=40usize {
                    for p in io_patterns(len) {
                        io_all.push(WOp::IoWrite(p));
                        if len == 0 {
                            break;
                        }
                    }
                }
                for len in [41usize, 47, 48, 49, 63, 64, 65, 100] {
                    io_all.push(WOp::IoWrite(io_patterns(len)[0].clone()));
                }
                let io_few: Vec<WOp> = [0usize, 1, 3, 7, 8, 9, 16, 17].iter().map(|&l| WOp::IoWrite(io_patterns(l)[1].clone())).collect();
                // level 0: reach every fill level (every starting bit offset)
                let mut l0: Vec<WOp> = (0..=64u8.min(wbits as u8 - 1)).map(|n| WOp::WriteBits { v: pats[3] & mask(n), n }).collect();
                l0.push(WOp::Unary(wbits as u64 + 3));
                let mut alphabets: Vec<Vec<WOp>> = vec![l0];
                if wbits > 64 {
                    let mut l1: Vec<WOp> = (1..64u8).map(|n| WOp::WriteBits { v: pats[2] & mask(n), n }).collect();
                    l1.extend(io_all.clone());
                    alphabets.push(l1);
                }
                let mut l2 = io_all.clone();
                l2.extend(bnd.clone());
                alphabets.push(l2);
                let mut l3 = io_few.clone();
                l3.push(WOp::IoFlush);
                if thorough {
                    l3.extend(bnd.clone());
                } else {
                    l3.truncate(4);
                    l3.push(WOp::IoFlush);
                    l3.push(WOp::Flush);
                    l3.push(WOp::WriteBits { v: 1, n: 1 });
                    l3.push(WOp::WriteBits { v: pats[3] & mask(wbits.min(64) as u8 - 1), n: wbits.min(64) as u8 - 1 });
                }
                alphabets.push(l3);
                if thorough {
                    let mut l4 = io_few.clone();
                    l4.push(WOp::Flush);
                    l4.push(WOp::WriteBits { v: 1, n: 1 });
                    alphabets.push(l4);
                }
                let run = WrRun { property: "C12", e, wbits, wrapper: "", depth: alphabets.len(), alphabets: &alphabets, fixpoint: false, max_states: 3_000_000, real_backends: true, check_counter: false, leaf_combos: if thorough { 28 } else { 3 } };
                explore(&run)
            }));
        }
    }
    let mut out = run_all(tasks, threads());
    out.merge(crate::props::readers::c12_read(ctx));
    out.merge(long_histories("C12", ctx, true));
    out.merge(c12_alignment(ctx));
    out.merge(c12_vectored(ctx));
    let meta = CheckMeta {
        property: "C12".into(),
        level: "model_checking".into(),
        rule: "write side: BFS over the real BufBitWriter for E x W in {8..128}: level 0 reaches every buffer fill level (every starting bit offset), then std::io::Write::write of every slice length 0..=40 (two byte patterns) and 41,47,48,49,63,64,65,100, then further byte writes / boundary bit writes / flush / io::Write::flush; returned count must equal the slice length, delivered words and final images on all real backends must equal the model (byte = 8 stream bits in stream order); read side: BFS to the fixpoint of every reader kind over zero-extended/strict/Cursor backends with io::Read::read of every length 0..=40, read_exact of 9 lengths and read_vectored of 8 partitions at every reachable state; plus single byte writes of 4 097, 65 535, 65 536, 65 537 and 100 003 bytes (thorough up to 2^20+1) at bit offsets 0 and 3 on every real backend; plus the address-alignment sweep: every slice length 0..=40 x every start address modulo 8 of the caller's slice x starting bit offsets (all 0..=2W+1 for W <= 16 and in the thorough tier, boundary offsets otherwise) on the writer of every word size, and on every reader kind (every offset 0..=2W+1, every length); in the BFS sections the slice address is (3 len + 1) mod 8; plus io::Write::write_vectored driven to completion for every partition of the input into at most 3 slices with lengths from {0,1,2,3,5,7,8,9,12,20} at 6 bit offsets on every word size: the returned count must not exceed the input and the stream must hold exactly the bytes reported as written, in order".into(),
        assumptions: vec!["reference model = canonical layout".into()],
    };
    (meta, out)
}

/// C08, destination view: the writer state space with copy-in operations in the alphabet.
pub fn c08_dest(ctx: &Ctx) -> Outcome {
    let mut tasks: Vec<Task> = vec![];
    for e in End::BOTH {
        for wbits in WBITS {
            let seed = ctx.seed;
            let thorough = ctx.thorough;
            tasks.push(Box::new(move || {
                let pats = value_patterns(seed);
                let bnd = boundary_alphabet(wbits, seed, false);
                let mut copies: Vec<WOp> = vec![];
                for src in 0..SRC_KINDS.len() as u8 {
                    let sw: usize = [8, 16, 32, 64, 64][src as usize];
                    let ks: Vec<usize> = if thorough { (0..=2 * sw).collect() } else { vec![0, 1, sw - 1, sw, sw + 3] };
                    for k in ks {
                        for peek in [false, true] {
                            let mut ns: Vec<usize> = vec![0, 1, 7, wbits - 1, wbits, wbits + 1, 63, 64, 65, 2 * wbits + 3, 130];
                            if thorough {
                                ns.extend([2, 8, 9, 31, 32, 33, 127, 128, 129, 3 * wbits + 1]);
                            }
                            ns.sort();
                            ns.dedup();
                            for n in ns {
                                if k + n > 256 {
                                    continue;
                                }
                                for from in [false, true] {
                                    copies.push(WOp::CopyIn { src, k: k as u16, peek, n: n as u16, from });
                                }
                            }
                        }
                    }
                }
                // level 0: reach a spread of fill levels; level 1: every copy-in; level 2: continuation
                let mut l0: Vec<WOp> = vec![];
                let fills: Vec<usize> = if thorough { (0..wbits.min(65)).collect() } else { vec![0, 1, 7, wbits / 2, wbits - 2, wbits - 1] };
                for n in fills {
                    if n <= 64 {
                        l0.push(WOp::WriteBits { v: pats[3] & mask(n as u8), n: n as u8 });
                    }
                }
                if wbits > 64 {
                    l0.push(WOp::Unary(wbits as u64 - 2)); // fill wbits-1
                    l0.push(WOp::Unary(100));
                }
                let mut l2 = bnd.clone();
                l2.extend(copies.iter().filter(|c| matches!(c, WOp::CopyIn { k: 1, peek: true, .. })).cloned());
                let alphabets = vec![l0, copies, l2];
                let run = WrRun { property: "C08", e, wbits, wrapper: "", depth: 3, alphabets: &alphabets, fixpoint: false, max_states: 4_000_000, real_backends: true, check_counter: false, leaf_combos: if thorough { 4 } else { 1 } };
                let mut out = explore(&run);
                // a second, narrower run: fill; then a write that CROSSES a word boundary and may leave
                // garbage in the undefined part of the buffer (dirty fixed-width arguments where the build
                // accepts them, code writes, unary); then a short copy; then a continuation
                {
                    let dirty = !cfg!(feature = "checks");
                    let hi = |n: u8| if dirty && n < 64 { u64::MAX << n } else { 0 };
                    let mut l1: Vec<WOp> = vec![];
                    for n in [1u8, 3, (wbits.min(64) / 2 + 1) as u8, (wbits.min(64) - 1) as u8, 64] {
                        l1.push(WOp::WriteBits { v: (pats[2] & mask(n)) | hi(n), n });
                    }
                    for (code, v) in [(crate::model::Code::Gamma, 100u64), (crate::model::Code::Delta, 100_000), (crate::model::Code::Omega, 1000), (crate::model::Code::Pi(2), 77), (crate::model::Code::Rice(3), 50), (crate::model::Code::ExpGolomb(2), 999), (crate::model::Code::Zeta(3), 12345)] {
                        l1.push(WOp::Code { code, v });
                    }
                    l1.push(WOp::Unary(wbits as u64 / 2));
                    let mut l2c: Vec<WOp> = vec![];
                    for src in [1u8, 3] {
                        for k in [0u16, 1, 5] {
                            for n in [1u16, 2, 7, wbits as u16 - 1, 64] {
                                for from in [false, true] {
                                    l2c.push(WOp::CopyIn { src, k, peek: false, n, from });
                                }
                            }
                        }
                    }
                    let l3: Vec<WOp> = vec![WOp::WriteBits { v: 1, n: 1 }, WOp::WriteBits { v: pats[3] & mask(9), n: 9 }, WOp::Flush, WOp::Unary(3)];
                    let fills: Vec<WOp> = (0..wbits.min(64)).step_by(if thorough { 1 } else { 5 }).chain([wbits.min(64) - 1, wbits.min(64) - 2]).map(|n| WOp::WriteBits { v: pats[3] & mask(n as u8), n: n as u8 }).collect();
                    let alphabets = vec![fills, l1, l2c, l3];
                    let run = WrRun { property: "C08", e, wbits, wrapper: "", depth: 4, alphabets: &alphabets, fixpoint: false, max_states: 4_000_000, real_backends: true, check_counter: false, leaf_combos: 1 };
                    out.merge(explore(&run));
                }
                out
            }));
        }
    }
    run_all(tasks, threads())
}

pub fn c08(ctx: &Ctx) -> (CheckMeta, Outcome) {
    let mut out = crate::props::readers::c08_source(ctx);
    out.merge(c08_dest(ctx));
    // the long and the 2^32-bit copies are not repeated in the slower build with debug assertions in the
    // quick tier (the two state-space views are)
    if ctx.thorough || !cfg!(debug_assertions) {
        out.merge(crate::props::readers::c08_long(ctx));
        out.merge(crate::props::huge::c08_huge(ctx));
    }
    let variant = if cfg!(feature = "no_copy_impls") { "generic copy paths (no_copy_impls)" } else { "optimised copy paths" };
    out.cov.notes.push(format!("this binary was built with the {}", variant));
    let meta = CheckMeta {
        property: "C08".into(),
        level: "model_checking".into(),
        rule: "the reader x writer product is cut along the copy step. Source view: BFS to the FIXPOINT of the real reader (Buf8..Buf64, unbuffered; zero-extended, strict, Cursor backends; Count wrapper) whose alphabet contains, besides boundary reads/peeks/skips, all table and table-free code reads and seeks, copy_to/copy_from of n bits (quick: 0,1,2,W/2,W-1,W,W+1; thorough: every n in 0..=2W+2; both plus 2W-1..2W+1, 3W+2, 5W+7, 8W, 200) into a fresh writer of every word size 8..128 pre-filled with 2 (thorough 6) bit counts; the destination's whole image (prefill ++ copied bits ++ sentinel) is compared with the model and the source continues as an ordinary BFS state, so EVERY continuation of EVERY post-copy state is explored. Destination view: BFS (depth 3) over the real writer: fill level, copy-in from a fresh source reader of every kind advanced by k bits and optionally peeked (more than one word buffered), continuation writes; delivered words and final images on real backends vs the model; a second run of depth 4: fill, a write that crosses a word boundary (dirty fixed-width arguments where the build accepts them, code writes, unary), a short copy-in, a continuation. Long-copy grid: single copies of B words + r bits (B in 127,128,129,256,1024 (thorough: 15 values from 63 to 1025), word = source or destination word, r in 0,1,5,21,W-1) from every source kind into every destination word size, 3 destination fills, 2 source offsets, both directions, with the source's position and next bits checked. Huge copies: single copies of 2^32 and 2^32+3 bits (thorough: also 2^32-1, 2^32+64, 3*2^31+17; destination words 32/64/128) from a buffered reader over a synthetic word source into a buffered writer over a comparing sink, both directions, every destination byte, the byte count, the source position and the source's next 64 bits checked. All of these are run on the build with the optimised copy paths (the two state-space views also on a build with debug assertions and overflow checks) and on the build with --features no_copy_impls".into(),
        assumptions: vec!["reference model = canonical layout".into()],
    };
    (meta, out)
}

pub fn code_write_ops() -> Vec<WOp> {
    use crate::model::Code;
    let mut a = vec![];
    let codes = [Code::Gamma, Code::Delta, Code::Zeta(3), Code::Zeta(2), Code::Omega, Code::Pi(2), Code::Rice(2), Code::Golomb(3), Code::ExpGolomb(1), Code::MinBin(5), Code::VByteBe, Code::VByteLe, Code::Unary];
    for c in codes {
        for v in [0u64, 1, 5, 63, 64, 1000, 70000] {
            if !crate::grid::in_domain(c, v) || (c == Code::Unary && v > 100) {
                continue;
            }
            for op in crate::streams::write_variants(c, v) {
                if !matches!(op, WOp::Disp { .. }) {
                    a.push(op);
                }
            }
        }
    }
    a
}

/// C14, write side.
pub fn c14_write(ctx: &Ctx) -> Outcome {
    let mut tasks: Vec<Task> = vec![];
    for e in End::BOTH {
        for wbits in WBITS {
            for wrapper in ["count", "dbg", "countp"] {
                if !ctx.thorough && (wrapper == "dbg" || wrapper == "countp") && wbits != 64 {
                    continue;
                }
                let seed = ctx.seed;
                let thorough = ctx.thorough;
                tasks.push(Box::new(move || {
                    // dirty arguments are in the alphabet unless this build of the library rejects them by design
                    let mut alph = boundary_alphabet(wbits, seed, !cfg!(feature = "checks"));
                    alph.extend(code_write_ops());
                    for (k, n) in [(0u16, 1u16), (3, 17), (1, 64), (0, 65), (5, 130)] {
                        for from in [false, true] {
                            alph.push(WOp::CopyIn { src: 2, k, peek: false, n, from });
                        }
                    }
                    let mut last = boundary_alphabet(wbits, seed, false);
                    last.truncate(6);
                    last.push(WOp::Flush);
                    let alphabets = if thorough { vec![alph.clone(), alph.clone(), alph.clone()] } else { vec![alph.clone(), alph.clone(), last] };
                    let run = WrRun { property: "C14", e, wbits, wrapper, depth: 3, alphabets: &alphabets, fixpoint: false, max_states: 2_000_000, real_backends: false, check_counter: true, leaf_combos: 0 };
                    explore(&run)
                }));
            }
        }
    }
    run_all(tasks, threads())
}

pub fn c14(ctx: &Ctx) -> (CheckMeta, Outcome) {
    let mut out = crate::props::readers::c14_read(ctx);
    out.merge(c14_write(ctx));
    out.merge(wrapper_grid(ctx, "C14"));
    out.merge(c14_unwrap(ctx));
    let meta = CheckMeta {
        property: "C14".into(),
        level: "model_checking".into(),
        rule: "the reader BFS (to the fixpoint) and the writer BFS (depth 3) are re-run with the object wrapped in CountBitReader/CountBitWriter (PRINT off and on) and DbgBitReader/DbgBitWriter; alphabet = every trait method reachable through the wrapper: read_bits/peek/skip/unary, the parameterless gamma/delta/zeta methods, every table-parameterised variant (which reach the stream through the wrapper's peek_bits/skip_bits_after_peek), omega, pi, rice, golomb, exp-golomb, minimal binary, vbyte, copy_to/copy_from, flush; oracle: values, delivered words and positions identical to the unwrapped model; bits_read = bits consumed since the wrapper was created (= inner bit_pos when created at 0; the wrapper is also created on a reader that has already consumed 13 bits, and seeks through the wrapper are explored to depth 3 with the positions checked) and bits_written = bits written by operations, after EVERY transition including flushes; plus a grid through the Count wrappers: every code x parameter of the C03 grid (zeta/pi/rice/exp-golomb 0..=63, Golomb and minimal-binary moduli up to 2^64-1, vbyte) x its boundary values (every 2^i-2..2^i+2, length steps, maxima), written through CountBitWriter and DbgBitWriter after 5 pending bits (returned length, counter, bytes delivered) and read through CountBitReader (every table variant the reader admits) at bits 0 and 5: value, position and counter; unwrapping (into_inner) after every prefix length 0..=W+1 and continuing on the inner reader/writer, for both values of the wrappers' PRINT parameter".into(),
        assumptions: vec!["flush padding is not counted as written bits (flush reports pending bits, which were counted when written)".into()],
    };
    (meta, out)
}


/// Long streams (tens of thousands of bits from a handful of operations), checked on every real
/// backend and finisher: growth policies, buffer hand-over and final image length.
pub fn long_histories(prop: &'static str, ctx: &Ctx, with_io: bool) -> Outcome {
    use crate::report::Violation;
    let mut tasks: Vec<Task> = vec![];
    for e in End::BOTH {
        for wbits in WBITS {
            let thorough = ctx.thorough;
            let seed = ctx.seed;
            tasks.push(Box::new(move || {
                let mut out = Outcome::new();
                let cfg = format!("{}/long", cfg_id(e, wbits, ""));
                out.cov.configs.insert(cfg.clone());
                let pats = value_patterns(seed);
                let mut hs: Vec<Vec<WOp>> = vec![];
                let xs: Vec<u64> = if thorough { vec![4095, 4096, 8191, 32767, 32768, 32769, 40000, 65535, 65536, 70001, 262144 + 5] } else { vec![32767, 32768, 40000, 70001] };
                if !with_io {
                    for &x in &xs {
                        hs.push(vec![WOp::Unary(x)]);
                        hs.push(vec![WOp::WriteBits { v: pats[3] & 0x1FFF, n: 13 }, WOp::Unary(x), WOp::WriteBits { v: 0x55, n: 7 }]);
                        hs.push(vec![WOp::Unary(x), WOp::Flush, WOp::Unary(x / 3), WOp::WriteBits { v: pats[2], n: 64 }]);
                    }
                    // many fixed-width writes
                    let mut many = vec![];
                    for i in 0..1200u64 {
                        many.push(WOp::WriteBits { v: pats[3].rotate_left(i as u32) & mask(((i * 7) % 65) as u8), n: ((i * 7) % 65) as u8 });
                    }
                    hs.push(many);
                } else {
                    let lens: Vec<usize> = if thorough { vec![4095, 4096, 4097, 65535, 65536, 65537, 100_003, (1 << 20) + 1] } else { vec![4097, 65535, 65536, 65537, 100_003] };
                    for &l in &lens {
                        let bytes: Vec<u8> = (0..l).map(|i| (i as u8).wrapping_mul(0x6D).wrapping_add((i >> 8) as u8) | 1).collect();
                        hs.push(vec![WOp::IoWrite(bytes.clone())]);
                        hs.push(vec![WOp::WriteBits { v: 5, n: 3 }, WOp::IoWrite(bytes), WOp::WriteBits { v: 1, n: 2 }]);
                    }
                }
                for h in &hs {
                    let combos: Vec<(&str, &str)> = if thorough {
                        REAL_BACKENDS.iter().flat_map(|b| FINISHERS.iter().map(move |f| (*b, *f))).collect()
                    } else {
                        vec![("vec", "into_inner"), ("vecref", "drop"), ("slice", "flush2"), ("adapter", "into_inner"), ("adapter3", "flush"), ("adapterlazy", "flush"), ("rec", "drop"), ("rec", "drop_unwind"), ("vecpre", "into_inner"), ("vecpre", "flush")]
                    };
                    for (backend, finisher) in combos {
                        out.cov.transitions += h.len() as u64;
                        out.cov.traces_validated += 1;
                        out.cov.evaluations += 1;
                        out.cov.nontrivial += 1;
                        if let Err((symptom, detail)) = check_real(e, wbits, backend, finisher, h) {
                            if out.violations.len() < 12 {
                                let short: String = detail.chars().take(300).collect();
                                out.violations.push(Violation {
                                    property: prop.into(),
                                    system: format!("writer-backend:{}:{}", backend, finisher),
                                    config: cfg.clone(),
                                    op_class: h.iter().map(|o| o.class()).max_by_key(|c| (*c == "write_unary" || *c == "io_write") as u8).unwrap_or("none").into(),
                                    symptom,
                                    detail: format!("long history of {} operations: {}", h.len(), short),
                                    replay: if h.len() <= 4 && !with_io { replay_doc(e, wbits, "", backend, finisher, h) } else { serde_json::json!({"kind": "none", "note": "long history; re-run the check"}) },
                                });
                            }
                        }
                    }
                }
                out
            }));
        }
    }
    run_all(tasks, threads())
}


/// The std::io views receive caller-owned byte slices: every slice length 0..=40 at every start
/// address modulo 8 (an implementation may move the aligned middle of a slice word-wise), at every
/// starting bit offset, on the writer (all word sizes) and on every reader kind.
pub fn c12_alignment(ctx: &Ctx) -> Outcome {
    use crate::model::Bits;
    use crate::rd::{make_reader, ROp, KINDS};
    use crate::rdsys::{explore as rexplore, RdModel, RdRun};
    use crate::report::Violation;
    let mut tasks: Vec<Task> = vec![];
    for e in End::BOTH {
        for wbits in WBITS {
            let thorough = ctx.thorough;
            tasks.push(Box::new(move || {
                let mut out = Outcome::new();
                let cfg = format!("{}/align", cfg_id(e, wbits, ""));
                out.cov.configs.insert(cfg.clone());
                let offs: Vec<usize> = if thorough || wbits <= 16 { (0..=2 * wbits.min(64) + 1).collect() } else { vec![0, 1, 3, 7, 8, 9, wbits - 1, wbits, wbits + 1] };
                for align in 0..8u8 {
                    crate::util::set_io_align(Some(align));
                    for len in 0..=40usize {
                        let bytes = io_patterns(len.max(1))[0][..len].to_vec();
                        for &o in &offs {
                            let mut h: Vec<WOp> = vec![];
                            let mut left = o;
                            while left > 0 {
                                let c = left.min(61);
                                h.push(WOp::WriteBits { v: 0x6B8B_4567_327B_23C6 & mask(c as u8), n: c as u8 });
                                left -= c;
                            }
                            h.push(WOp::IoWrite(bytes.clone()));
                            h.push(WOp::WriteBits { v: 0b1011001, n: 7 });
                            out.cov.transitions += h.len() as u64;
                            out.cov.traces_validated += 1;
                            out.cov.evaluations += 1;
                            if align != 0 && len > 1 {
                                out.cov.nontrivial += 1;
                            }
                            if let Err((symptom, detail)) = check_real(e, wbits, "vec", "flush", &h) {
                                if out.violations.len() < 12 {
                                    out.violations.push(Violation {
                                        property: "C12".into(),
                                        system: "writer-backend:vec:flush".into(),
                                        config: cfg.clone(),
                                        op_class: "io_write".into(),
                                        symptom,
                                        detail: format!("slice of {} bytes starting at address = {} mod 8, stream offset {}: {}", len, align, o, detail.chars().take(300).collect::<String>()),
                                        replay: replay_doc(e, wbits, "", "vec", "flush", &h),
                                    });
                                }
                            }
                        }
                    }
                }
                crate::util::set_io_align(None);
                out
            }));
        }
        for kind in KINDS {
            let diag = ctx.diag[kind];
            let seed = ctx.seed;
            tasks.push(Box::new(move || {
                let mut out = Outcome::new();
                let img = &crate::images::images(e, 512, seed, false)[0];
                let model = RdModel { bits: Bits::from_bytes(&img.bytes, e), e, zx: false, limit: 512, tables_ok: diag };
                let w = match kind {
                    "buf8" => 8usize,
                    "buf16" => 16,
                    "buf32" => 32,
                    _ => 64,
                };
                // depth 2: every starting offset 0..=2W+1 (one skip), then every length
                let mut alphabet: Vec<ROp> = (1..=(2 * w + 1) as u16).map(ROp::Skip).collect();
                for len in 0..=40u16 {
                    alphabet.push(ROp::IoRead(len));
                }
                for align in 0..8u8 {
                    crate::util::set_io_align(Some(align));
                    let rd = make_reader(e, kind, "memstrict", "", &img.bytes);
                    let run = RdRun { property: "C12", model: &model, image: &img.bytes, alphabet: &alphabet, max_states: 40_000, check_counter: false, max_depth: 2 };
                    out.merge(rexplore(&run, rd));
                }
                crate::util::set_io_align(None);
                out
            }));
        }
    }
    run_all(tasks, threads())
}


/// C14 grid: the wrappers compute their counters from the length functions of the codes, so the
/// counters are compared on the whole (code, parameter, boundary value) grid, not only on the few
/// codes of the state-space alphabets.
pub fn wrapper_grid(ctx: &Ctx, prop: &'static str) -> Outcome {
    use crate::model::{encode, ref_len, Bits};
    use crate::rd::{make_reader, ROp};
    use crate::rdsys::{explore as rexplore, RdModel, RdRun};
    use crate::report::Violation;
    let mut tasks: Vec<Task> = vec![];
    let codes = crate::grid::all_codes(ctx.seed);
    let kinds: Vec<&'static str> = if ctx.thorough { vec!["buf16", "buf32", "buf64", "unbuf"] } else { vec!["buf32", "unbuf"] };
    const CHUNK: usize = 24;
    for e in End::BOTH {
        for (ci, chunk) in codes.chunks(CHUNK).enumerate() {
            let chunk: Vec<crate::model::Code> = chunk.to_vec();
            let diag = ctx.diag.clone();
            let seed = ctx.seed;
            let kinds = kinds.clone();
            tasks.push(Box::new(move || {
                let mut out = Outcome::new();
                let cfg = format!("{}/wrapper-grid", e.name());
                out.cov.configs.insert(cfg.clone());
                let _ = ci;
                for code in chunk {
                    for v in crate::grid::boundary_values(code, seed, 2) {
                        let len = ref_len(code, v) as usize;
                        if len > 300 {
                            continue;
                        }
                        // write side: through both wrappers; returned length, counter, and the bytes that
                        // reach the backend (the code writers are blanket implementations over BitWrite, and
                        // the wrappers are BitWrite implementors of their own)
                        for wrapper in ["count", "dbg", "countp"] {
                            let mut w = make_rec_writer(e, 64, wrapper);
                            let ops = [WOp::WriteBits { v: 0b10110, n: 5 }, WOp::Code { code, v }, WOp::WriteBits { v: 0b1011001, n: 7 }, WOp::Flush];
                            let o1 = w.apply(&ops[0]);
                            let o2 = w.apply(&ops[1]);
                            let c = w.counter();
                            out.cov.evaluations += 1;
                            out.cov.nontrivial += 1;
                            let mut bad = match (&o1, &o2) {
                                (WObs::Ret(5), WObs::Ret(n)) if *n == len => {
                                    if wrapper == "dbg" || c == Some(5 + len as u64) {
                                        None
                                    } else {
                                        Some(("counter", format!("bits_written = {:?} after 5 bits and a {}-bit codeword", c, len)))
                                    }
                                }
                                (_, WObs::Panic(m)) => Some(("panic", m.clone())),
                                _ => Some(("value", format!("write returned {:?}, the codeword has {} bits", o2, len))),
                            };
                            if matches!(o2, WObs::Panic(_)) || matches!(o1, WObs::Panic(_)) {
                                w.forget();
                            } else {
                                let o3 = w.apply(&ops[2]);
                                let o4 = w.apply(&ops[3]);
                                if matches!(o3, WObs::Panic(_)) || matches!(o4, WObs::Panic(_)) {
                                    w.forget();
                                    bad = bad.or(Some(("panic", format!("{:?} {:?}", o3, o4))));
                                } else if bad.is_none() {
                                    let (mbits, _, _) = model_history(&ops, e, 64);
                                    let want = mbits.to_bytes(e, 64);
                                    let got = w.delivered();
                                    if got != want {
                                        bad = Some(("bytes", format!("bytes delivered {} expected {}", crate::util::hex(&got), crate::util::hex(&want))));
                                    }
                                }
                            }
                            if let Some((symptom, detail)) = bad {
                                if out.violations.len() < 24 {
                                    out.violations.push(Violation {
                                        property: prop.into(),
                                        system: "writer".into(),
                                        config: format!("{}/w64/{}", e.name(), wrapper),
                                        op_class: "code_write".into(),
                                        symptom: symptom.into(),
                                        detail: format!("{} of {} through the {} wrapper: {}", code.name(), v, wrapper, detail),
                                        replay: replay_doc(e, 64, wrapper, "rec", "flush", &ops[..2]),
                                    });
                                }
                            }
                        }
                        if prop != "C14" {
                            // the read side is C14's business only
                            continue;
                        }
                        // read side
                        let mut bits = Bits::new();
                        bits.push_field(0b10110, 5, e);
                        let cw = encode(code, v, e);
                        for i in 0..cw.len() {
                            bits.push_bit(cw.bit(i).unwrap());
                        }
                        bits.push_field(0b1011001, 7, e);
                        while bits.len() % 64 != 0 {
                            bits.push_bit(1);
                        }
                        let bytes = bits.to_bytes(e, 64);
                        let mut alphabet = vec![ROp::Skip(5)];
                        alphabet.extend(crate::streams::read_variants(code, false));
                        for kind in &kinds {
                            let model = RdModel { bits: Bits::from_bytes(&bytes, e), e, zx: false, limit: bits.len(), tables_ok: diag[*kind] };
                            let rd = make_reader(e, kind, "memstrict", "count", &bytes);
                            let run = RdRun { property: prop, model: &model, image: &bytes, alphabet: &alphabet, max_states: 1000, check_counter: true, max_depth: 2 };
                            out.merge(rexplore(&run, rd));
                        }
                    }
                }
                out
            }));
        }
    }
    run_all(tasks, threads())
}


/// Unwrapping a counting wrapper must hand back the inner stream exactly where it stands: every
/// prefix length 0..=W+1 written (read) through the wrapper, `into_inner`, then the sentinel on the
/// inner writer (20 more bits from the inner reader).  Both values of the PRINT parameter.
pub fn c14_unwrap(_ctx: &Ctx) -> Outcome {
    use crate::model::Bits;
    use crate::report::Violation;
    use dsi_bitstream::prelude::*;
    let mut tasks: Vec<Task> = vec![];
    for e in End::BOTH {
        for wbits in WBITS {
            tasks.push(Box::new(move || {
                let mut out = Outcome::new();
                let cfg = format!("{}/w{}/count/unwrap", e.name(), wbits);
                out.cov.configs.insert(cfg.clone());
                let image: Vec<u8> = (0..64u32).map(|i| (i.wrapping_mul(0x9D).wrapping_add(0x37) >> 1) as u8 ^ 0xA6).collect();
                let mbits = Bits::from_bytes(&image, e);
                let mut report = |out: &mut Outcome, system: &str, sym: &str, d: String| {
                    if out.violations.len() < 12 {
                        out.violations.push(Violation { property: "C14".into(), system: system.into(), config: cfg.clone(), op_class: "into_inner".into(), symptom: sym.into(), detail: d, replay: serde_json::json!({"kind": "none"}) });
                    }
                };
                macro_rules! go_w {
                    ($E:ty, $W:ty, $PRINT:expr) => {{
                        for f in 0..=(wbits + 1) {
                            let mut ops: Vec<WOp> = vec![];
                            let mut left = f;
                            while left > 0 {
                                let c = left.min(61);
                                ops.push(WOp::WriteBits { v: 0x6B8B_4567_327B_23C6 & mask(c as u8), n: c as u8 });
                                left -= c;
                            }
                            let rec = Rec::<$W>::new();
                            let log = rec.log.clone();
                            let r = std::panic::catch_unwind(std::panic::AssertUnwindSafe(|| -> Result<u64, String> {
                                let mut cw = CountBitWriter::<$E, _, $PRINT>::new(BufBitWriter::<$E, _>::new(rec));
                                for op in &ops {
                                    if let WOp::WriteBits { v, n } = op {
                                        cw.write_bits(*v, *n as usize).map_err(|e| format!("{e}"))?;
                                    }
                                }
                                let counted = cw.bits_written as u64;
                                let mut inner = cw.into_inner();
                                inner.write_bits(0b1011001, 7).map_err(|e| format!("{e}"))?;
                                BitWrite::<$E>::flush(&mut inner).map_err(|e| format!("{e}"))?;
                                Ok(counted)
                            }));
                            ops.push(WOp::WriteBits { v: 0b1011001, n: 7 });
                            ops.push(WOp::Flush);
                            let (model, _, _) = model_history(&ops, e, wbits);
                            let want = model.to_bytes(e, wbits);
                            out.cov.evaluations += 1;
                            out.cov.nontrivial += 1;
                            out.cov.transitions += ops.len() as u64 + 1;
                            match r {
                                Err(p) => report(&mut out, "writer", "panic", format!("PRINT={}: {}", $PRINT, crate::util::panic_msg(&p))),
                                Ok(Err(m)) => report(&mut out, "writer", "error", format!("PRINT={}: {}", $PRINT, m)),
                                Ok(Ok(c)) if c != f as u64 => report(&mut out, "writer", "counter", format!("PRINT={}: bits_written = {} after {} bits", $PRINT, c, f)),
                                Ok(Ok(_)) => {
                                    let got = log.borrow().clone();
                                    if got != want {
                                        report(&mut out, "writer", "bytes", format!("PRINT={}: after {} bits through the wrapper, into_inner() and 7 more bits on the inner writer the stream is {} (expected {})", $PRINT, f, crate::util::hex(&got), crate::util::hex(&want)));
                                    }
                                }
                            }
                        }
                    }};
                }
                macro_rules! go_r {
                    ($E:ty, $W:ty, $PRINT:expr) => {{
                        for f in 0..=(wbits + 1) {
                            let words = crate::rd::words_from_bytes::<$W>(&image);
                            let r = std::panic::catch_unwind(std::panic::AssertUnwindSafe(|| -> Result<(u64, u64, u64), String> {
                                let mut cr = CountBitReader::<$E, _, $PRINT>::new(BufBitReader::<$E, _>::new(MemWordReader::<$W, _, false>::new_strict(words)));
                                let mut left = f;
                                while left > 0 {
                                    let c = left.min(61);
                                    cr.read_bits(c).map_err(|e| format!("{e}"))?;
                                    left -= c;
                                }
                                // a look-ahead through the wrapper just before unwrapping (buffered bits must survive)
                                let _ = cr.peek_bits(1);
                                let counted = cr.bits_read as u64;
                                let mut inner = cr.into_inner();
                                let v = inner.read_bits(20).map_err(|e| format!("{e}"))?;
                                let p = BitSeek::bit_pos(&mut inner).map_err(|e| format!("{e}"))?;
                                Ok((counted, v, p))
                            }));
                            let wantv = mbits.field(f, 20, e, false).unwrap() as u64;
                            out.cov.evaluations += 1;
                            out.cov.nontrivial += 1;
                            out.cov.transitions += 4;
                            match r {
                                Err(p) => report(&mut out, "reader", "panic", format!("PRINT={}: {}", $PRINT, crate::util::panic_msg(&p))),
                                Ok(Err(m)) => report(&mut out, "reader", "error", format!("PRINT={}: {}", $PRINT, m)),
                                Ok(Ok((c, v, p))) => {
                                    if c != f as u64 {
                                        report(&mut out, "reader", "counter", format!("PRINT={}: bits_read = {} after {} bits", $PRINT, c, f));
                                    } else if v != wantv || p != f as u64 + 20 {
                                        report(&mut out, "reader", "value", format!("PRINT={}: after {} bits through the wrapper and into_inner() the inner reader returned {:#x} and stands at {} (expected {:#x} at {})", $PRINT, f, v, p, wantv, f + 20));
                                    }
                                }
                            }
                        }
                    }};
                }
                macro_rules! both {
                    ($E:ty, $W:ty) => {{
                        go_w!($E, $W, false);
                        go_w!($E, $W, true);
                        go_r!($E, $W, false);
                        go_r!($E, $W, true);
                    }};
                }
                match (e, wbits) {
                    (End::BE, 8) => both!(BE, u8),
                    (End::BE, 16) => both!(BE, u16),
                    (End::BE, 32) => both!(BE, u32),
                    (End::BE, 64) => both!(BE, u64),
                    (End::BE, _) => {
                        go_w!(BE, u128, false);
                        go_w!(BE, u128, true);
                    }
                    (End::LE, 8) => both!(LE, u8),
                    (End::LE, 16) => both!(LE, u16),
                    (End::LE, 32) => both!(LE, u32),
                    (End::LE, 64) => both!(LE, u64),
                    (End::LE, _) => {
                        go_w!(LE, u128, false);
                        go_w!(LE, u128, true);
                    }
                }
                out
            }));
        }
    }
    run_all(tasks, threads())
}


/// std::io::Write::write_vectored is part of the Write view: whatever an implementation makes of a
/// list of slices, the count it returns is the number of bytes (in order, from the front of the
/// concatenation) that are now in the stream.  Driven to completion like write_all would.
pub fn c12_vectored(_ctx: &Ctx) -> Outcome {
    use crate::report::Violation;
    use dsi_bitstream::prelude::*;
    use std::io::{IoSlice, Write};
    let mut tasks: Vec<Task> = vec![];
    let lens: [usize; 10] = [0, 1, 2, 3, 5, 7, 8, 9, 12, 20];
    let mut parts: Vec<Vec<usize>> = vec![];
    for &a in &lens {
        parts.push(vec![a]);
        for &b in &lens {
            parts.push(vec![a, b]);
            for &c in &lens {
                parts.push(vec![a, b, c]);
            }
        }
    }
    let parts = std::sync::Arc::new(parts);
    for e in End::BOTH {
        for wbits in WBITS {
            let parts = parts.clone();
            tasks.push(Box::new(move || {
                let mut out = Outcome::new();
                let cfg = format!("{}/vectored", cfg_id(e, wbits, ""));
                out.cov.configs.insert(cfg.clone());
                let data: Vec<u8> = (0..64u32).map(|i| (i.wrapping_mul(0x3B).wrapping_add(0x91)) as u8 | 1).collect();
                macro_rules! go {
                    ($E:ty, $W:ty) => {{
                        for o in [0usize, 1, 3, 7, 8, wbits - 1] {
                            for part in parts.iter() {
                                let total: usize = part.iter().sum();
                                let rec = Rec::<$W>::new();
                                let log = rec.log.clone();
                                let r = std::panic::catch_unwind(std::panic::AssertUnwindSafe(|| -> Result<(), String> {
                                    let mut w = BufBitWriter::<$E, _>::new(rec);
                                    let mut left = o;
                                    while left > 0 {
                                        let c = left.min(61);
                                        w.write_bits(0x6B8B_4567_327B_23C6 & mask(c as u8), c).map_err(|e| format!("{e}"))?;
                                        left -= c;
                                    }
                                    // the slices, as (start, end) into `data`
                                    let mut segs: Vec<(usize, usize)> = vec![];
                                    let mut at = 0;
                                    for &l in part.iter() {
                                        segs.push((at, at + l));
                                        at += l;
                                    }
                                    let mut done = 0usize;
                                    let mut guard = 0;
                                    while done < total {
                                        guard += 1;
                                        if guard > 200 {
                                            return Err("write_vectored makes no progress".into());
                                        }
                                        let bufs: Vec<IoSlice> = segs.iter().filter(|(s, t)| *t > done.max(*s)).map(|(s, t)| IoSlice::new(&data[done.max(*s)..*t])).collect();
                                        let n = w.write_vectored(&bufs).map_err(|e| format!("{e}"))?;
                                        if n == 0 {
                                            return Err(format!("write_vectored returned 0 with {} bytes left", total - done));
                                        }
                                        if done + n > total {
                                            return Err(format!("write_vectored returned {} with only {} bytes offered", n, total - done));
                                        }
                                        done += n;
                                    }
                                    w.write_bits(0b1011001, 7).map_err(|e| format!("{e}"))?;
                                    BitWrite::<$E>::flush(&mut w).map_err(|e| format!("{e}"))?;
                                    Ok(())
                                }));
                                let mut ops: Vec<WOp> = vec![];
                                let mut left = o;
                                while left > 0 {
                                    let c = left.min(61);
                                    ops.push(WOp::WriteBits { v: 0x6B8B_4567_327B_23C6 & mask(c as u8), n: c as u8 });
                                    left -= c;
                                }
                                ops.push(WOp::IoWrite(data[..total].to_vec()));
                                ops.push(WOp::WriteBits { v: 0b1011001, n: 7 });
                                ops.push(WOp::Flush);
                                let (model, _, _) = model_history(&ops, e, wbits);
                                let want = model.to_bytes(e, wbits);
                                out.cov.evaluations += 1;
                                out.cov.transitions += part.len() as u64 + 2;
                                if part.len() > 1 {
                                    out.cov.nontrivial += 1;
                                }
                                let bad: Option<(&str, String)> = match r {
                                    Err(p) => Some(("panic", crate::util::panic_msg(&p))),
                                    Ok(Err(m)) => Some(("error", m)),
                                    Ok(Ok(())) => {
                                        let got = log.borrow().clone();
                                        if got != want {
                                            Some(("bytes", format!("stream is {} (expected {})", crate::util::hex(&got), crate::util::hex(&want))))
                                        } else {
                                            None
                                        }
                                    }
                                };
                                if let Some((sym, d)) = bad {
                                    if out.violations.len() < 12 {
                                        out.violations.push(Violation {
                                            property: "C12".into(),
                                            system: "writer".into(),
                                            config: cfg.clone(),
                                            op_class: "io_write_vectored".into(),
                                            symptom: sym.into(),
                                            detail: format!("write_vectored of slices of lengths {:?} at bit offset {}, driven to completion: {}", part, o, d),
                                            replay: serde_json::json!({"kind": "none"}),
                                        });
                                    }
                                }
                            }
                        }
                    }};
                }
                match (e, wbits) {
                    (End::BE, 8) => go!(BE, u8),
                    (End::BE, 16) => go!(BE, u16),
                    (End::BE, 32) => go!(BE, u32),
                    (End::BE, 64) => go!(BE, u64),
                    (End::BE, _) => go!(BE, u128),
                    (End::LE, 8) => go!(LE, u8),
                    (End::LE, 16) => go!(LE, u16),
                    (End::LE, 32) => go!(LE, u32),
                    (End::LE, 64) => go!(LE, u64),
                    (End::LE, _) => go!(LE, u128),
                }
                out
            }));
        }
    }
    run_all(tasks, threads())
}


/// The `NativeEndian` / `NE` aliases: a writer and a reader instantiated through them must behave as the
/// endianness of the host (documented meaning of the alias).
pub fn native_alias(prop: &str, out: &mut Outcome) {
    use crate::model::Bits;
    use crate::report::Violation;
    use dsi_bitstream::prelude::*;
    out.cov.configs.insert("native-endian-alias".into());
    let host = if cfg!(target_endian = "little") { End::LE } else { End::BE };
    let mut report = |out: &mut Outcome, sym: &str, d: String| {
        out.violations.push(Violation { property: prop.into(), system: "native-alias".into(), config: host.name().into(), op_class: "alias".into(), symptom: sym.into(), detail: d, replay: serde_json::json!({"kind": "none"}) });
    };
    if NE::IS_LITTLE != cfg!(target_endian = "little") || NativeEndian::IS_BIG != cfg!(target_endian = "big") {
        report(out, "value", format!("NE::IS_LITTLE = {} on a {}-endian host", NE::IS_LITTLE, if cfg!(target_endian = "little") { "little" } else { "big" }));
    }
    let ops = [WOp::WriteBits { v: 0b1011, n: 4 }, WOp::Unary(5), WOp::WriteBits { v: 0xABCD, n: 16 }, WOp::WriteBits { v: 0x1234_5678_9ABC_DEF0, n: 64 }, WOp::Flush];
    let rec = Rec::<u32>::new();
    let log = rec.log.clone();
    {
        let mut w = BufBitWriter::<NE, _>::new(rec);
        let _ = w.write_bits(0b1011, 4);
        let _ = w.write_unary(5);
        let _ = w.write_bits(0xABCD, 16);
        let _ = w.write_bits(0x1234_5678_9ABC_DEF0, 64);
        let _ = BitWrite::<NE>::flush(&mut w);
    }
    let (model, _, _) = model_history(&ops, host, 32);
    let want = model.to_bytes(host, 32);
    out.cov.evaluations += 2;
    out.cov.transitions += 10;
    if *log.borrow() != want {
        report(out, "bytes", format!("a writer instantiated through NE wrote {} but the {} layout of the same bits is {}", crate::util::hex(&log.borrow()), host.name(), crate::util::hex(&want)));
    }
    let words = crate::rd::words_from_bytes::<u32>(&want);
    let mut r = BufBitReader::<NE, _>::new(MemWordReader::new(words));
    let a = r.read_bits(4).unwrap_or(u64::MAX);
    let u = r.read_unary().unwrap_or(u64::MAX);
    let b = r.read_bits(16).unwrap_or(u64::MAX);
    let bits = Bits::from_bytes(&want, host);
    if (a, u, b) != (0b1011, 5, 0xABCD) || bits.len() < 90 {
        report(out, "value", format!("a reader instantiated through NE read ({:#x}, {}, {:#x}) from the {} image of (0xb, unary 5, 0xabcd)", a, u, b, host.name()));
    }
}
