//! C07 (also C11): a `WordAdapter` created over a seekable byte stream that is ALREADY positioned at a
//! non-zero multiple of the word size (documented use: a header was consumed first).  Positions are
//! absolute: the reader must report k*W bits at creation and then behave, for every operation
//! sequence up to the depth bound, exactly as a reader created at offset 0 and moved there by
//! set_bit_pos (differential oracle; the latter is what the main reader exploration decides).

use crate::pool::{run_all, threads, Task};
use crate::report::{Outcome, Violation};
use crate::Ctx;
use common_traits::CastableInto;
use dsi_bitstream::prelude::*;
use std::io::{BufReader, Cursor};

#[derive(Clone, Copy, Debug)]
enum POp {
    Rb(usize),
    Un,
    Pk,
    Sk(usize),
    Ga,
    Pos,
    Save,
    Back,
    Set(u64),
}

type Obs = Result<u64, ()>;

macro_rules! app {
    ($r:expr, $op:expr, $saved:expr) => {{
        let r = &mut $r;
        let o: Obs = match $op {
            POp::Rb(n) => r.read_bits(n).map_err(|_| ()),
            POp::Un => r.read_unary().map_err(|_| ()),
            POp::Pk => r.peek_bits(5).map(|x| {
                let v: u64 = x.cast();
                v & 31
            }).map_err(|_| ()),
            POp::Sk(n) => r.skip_bits(n).map(|_| 0).map_err(|_| ()),
            POp::Ga => r.read_gamma().map_err(|_| ()),
            POp::Pos => r.bit_pos().map_err(|_| ()),
            POp::Save => r.bit_pos().map(|p| {
                $saved = p;
                p
            }).map_err(|_| ()),
            POp::Back => r.set_bit_pos($saved).map(|_| 0).map_err(|_| ()),
            POp::Set(p) => r.set_bit_pos(p).map(|_| 0).map_err(|_| ()),
        };
        o
    }};
}

/// Peek is "mod 32 of the low/high 5 bits": both readers are of the same type, so the raw value is
/// comparable; the mask only removes look-ahead garbage above the requested width (none is allowed,
/// but that is C02's business).
macro_rules! pair {
    ($out:expr, $prop:expr, $cfg:expr, $mk_a:expr, $mk_b:expr, $start:expr, $alphabet:expr, $depth:expr) => {{
        let alpha: &[POp] = $alphabet;
        let a_len = alpha.len();
        let total: usize = (1..=$depth).map(|d| a_len.pow(d as u32)).sum();
        $out.cov.configs.insert($cfg.clone());
        // creation: absolute position
        {
            let mut a = $mk_a;
            $out.cov.evaluations += 1;
            match a.bit_pos() {
                Ok(p) if p == $start => {}
                other => $out.violations.push(Violation {
                    property: $prop.into(),
                    system: "prepositioned".into(),
                    config: $cfg.clone(),
                    op_class: "creation".into(),
                    symptom: "position".into(),
                    detail: format!("adapter created over a pre-positioned stream: bit_pos() = {:?}, expected {}", other.map_err(|e| e.to_string()), $start),
                    replay: serde_json::json!({"kind": "none"}),
                }),
            }
        }
        let mut seq: Vec<usize> = Vec::new();
        let mut reported = false;
        for d in 1..=$depth {
            for code in 0..a_len.pow(d as u32) {
                seq.clear();
                let mut c = code;
                for _ in 0..d {
                    seq.push(c % a_len);
                    c /= a_len;
                }
                let mut a = $mk_a;
                let mut b = $mk_b;
                let (mut sa, mut sb) = ($start, $start);
                $out.cov.traces_validated += 1;
                for (i, &k) in seq.iter().enumerate() {
                    let op = alpha[k];
                    let oa = app!(a, op, sa);
                    let ob = app!(b, op, sb);
                    $out.cov.transitions += 1;
                    if ob.is_err() && oa.is_err() {
                        break; // states after a reported error are outside the property
                    }
                    let pa = a.bit_pos().map_err(|_| ());
                    let pb = b.bit_pos().map_err(|_| ());
                    if oa != ob || pa != pb {
                        if !reported {
                            reported = true;
                            $out.violations.push(Violation {
                                property: $prop.into(),
                                system: "prepositioned".into(),
                                config: $cfg.clone(),
                                op_class: format!("{:?}", op).split('(').next().unwrap().to_string(),
                                symptom: if oa != ob { "value".into() } else { "position".into() },
                                detail: format!(
                                    "ops {:?}, step {}: reader created over the pre-positioned stream gives {:?} at bit {:?}; reader created at 0 and moved by set_bit_pos({}) gives {:?} at bit {:?}",
                                    seq.iter().map(|&k| alpha[k]).collect::<Vec<_>>(), i, oa, pa, $start, ob, pb
                                ),
                                replay: serde_json::json!({"kind": "none"}),
                            });
                        }
                        break;
                    }
                    if ob.is_err() {
                        break;
                    }
                    $out.cov.nontrivial += 1;
                }
            }
        }
        $out.cov.add_extra("prepositioned_sequences", total as u64);
    }};
}

fn image(seed: u64, n: usize) -> Vec<u8> {
    let mut x = seed.wrapping_mul(0x9E37_79B9_7F4A_7C15) | 1;
    (0..n)
        .map(|_| {
            x ^= x << 13;
            x ^= x >> 7;
            x ^= x << 17;
            (x >> 24) as u8
        })
        .collect()
}

pub fn prepositioned(prop: &'static str, ctx: &Ctx) -> Outcome {
    let depth: usize = if ctx.thorough { 5 } else { 4 };
    let seed = ctx.seed;
    let mut tasks: Vec<Task> = vec![];
    macro_rules! cfgs {
        ($E:ty, $en:expr, $W:ty, $RT:ident, $kn:expr, $follows:expr) => {
            for k in 1u64..=3 {
                for src in ["cursor", "bufreader"] {
                    tasks.push(Box::new(move || {
                        let mut out = Outcome::new();
                        let bytes = image(seed ^ 0xC07, 64);
                        let wb = <$W>::BITS as u64;
                        // The buffered reader continues from where the byte stream stands (its position is
                        // word_pos()*W minus what it buffered); the unbuffered BitReader addresses the stream
                        // absolutely and re-seeks on every read, so for it the offset at creation must be
                        // IGNORED: it reports 0 and reads stream bit 0.
                        let offset = k * wb;
                        let start = if $follows { offset } else { 0 };
                        let alphabet = [
                            POp::Rb(1),
                            POp::Rb(7),
                            POp::Rb(wb as usize),
                            POp::Un,
                            POp::Pk,
                            POp::Sk(wb as usize + 3),
                            if wb == 8 { POp::Rb(3) } else { POp::Ga }, // no table-driven codes on a u8-word reader (diagnostic at construction)
                            POp::Save,
                            POp::Back,
                            POp::Set(0),
                            POp::Set(offset + 5),
                            POp::Pos,
                        ];
                        let cfg = format!("{}/{}/{}/prepositioned-{}w", $en, $kn, src, k);
                        if src == "cursor" {
                            pair!(
                                out, prop, cfg,
                                {
                                    let mut c = Cursor::new(bytes.clone());
                                    c.set_position(offset / 8);
                                    $RT::<$E, _>::new(WordAdapter::<$W, _>::new(c))
                                },
                                {
                                    let mut r = $RT::<$E, _>::new(WordAdapter::<$W, _>::new(Cursor::new(bytes.clone())));
                                    r.set_bit_pos(start).unwrap();
                                    r
                                },
                                start, &alphabet, depth
                            );
                        } else {
                            pair!(
                                out, prop, cfg,
                                {
                                    let mut c = Cursor::new(bytes.clone());
                                    c.set_position(offset / 8);
                                    $RT::<$E, _>::new(WordAdapter::<$W, _>::new(BufReader::with_capacity(24, c)))
                                },
                                {
                                    let mut r = $RT::<$E, _>::new(WordAdapter::<$W, _>::new(BufReader::with_capacity(24, Cursor::new(bytes.clone()))));
                                    r.set_bit_pos(start).unwrap();
                                    r
                                },
                                start, &alphabet, depth
                            );
                        }
                        out
                    }));
                }
            }
        };
    }
    macro_rules! by_e {
        ($E:ty, $en:expr) => {
            cfgs!($E, $en, u8, BufBitReader, "buf8", true);
            cfgs!($E, $en, u16, BufBitReader, "buf16", true);
            cfgs!($E, $en, u32, BufBitReader, "buf32", true);
            cfgs!($E, $en, u64, BufBitReader, "buf64", true);
            cfgs!($E, $en, u64, BitReader, "unbuf", false);
        };
    }
    by_e!(BE, "BE");
    by_e!(LE, "LE");
    run_all(tasks, threads())
}
