//! Binding the reference model to the repository (DESIGN.md 3.3): the reference encoder
//! must reproduce the generator-side definitions of python/gen_code_tables.py, the
//! documented codeword table and the hand-written regression vectors.  A disagreement is
//! a machinery failure (exit 2), never a verdict.

use crate::model::{encode, Bits, Code, End};
use crate::report::Outcome;

fn repo_dir() -> String {
    std::env::var("DSIV_REPO_DIR").unwrap_or("/repo".into())
}

fn harness_dir() -> String {
    std::env::var("DSIV_HARNESS_DIR").unwrap_or("/verif/harness".into())
}

pub fn validate_reference(out: &mut Outcome) -> u64 {
    let n = "4096";
    let o = std::process::Command::new("python3").arg(format!("{}/modelval.py", harness_dir())).arg(repo_dir()).arg(n).output();
    let o = match o {
        Ok(o) if o.status.success() => o,
        Ok(o) => {
            println!("MACHINERY: modelval.py failed: {}", String::from_utf8_lossy(&o.stderr));
            std::process::exit(2);
        }
        Err(e) => {
            println!("MACHINERY: cannot run python3: {}", e);
            std::process::exit(2);
        }
    };
    let text = String::from_utf8_lossy(&o.stdout);
    let mut count = 0u64;
    let mut by_src = [0u64; 3];
    for line in text.lines() {
        let f: Vec<&str> = line.split(' ').collect();
        if f.len() < 5 {
            continue;
        }
        let (src, name, arg) = (f[0], f[1], f[2]);
        let fail = |why: String| -> ! {
            println!("MACHINERY: reference model disagrees with the repository's own definition: {} ({})", line, why);
            std::process::exit(2);
        };
        if src == "reg" {
            let e = if f[3] == "BE" { End::BE } else { End::LE };
            let args: Vec<u64> = arg.split(',').filter_map(|x| x.parse().ok()).collect();
            let code = match (name, args.len()) {
                ("write_unary", 1) => Code::Unary,
                ("write_gamma", 1) => Code::Gamma,
                ("write_delta", 1) => Code::Delta,
                ("write_zeta3", 1) => Code::Zeta(3),
                ("write_zeta", 2) => Code::Zeta(args[1] as u32),
                ("write_omega", 1) => Code::Omega,
                ("write_pi", 2) => Code::Pi(args[1] as u32),
                _ => continue,
            };
            let mut b: Bits = encode(code, args[0], e);
            if b.len() > 64 {
                continue;
            }
            b.pad_to(64);
            if b.to_string01() != f[4] {
                fail(format!("reference gives {}", b.to_string01()));
            }
            by_src[2] += 1;
        } else {
            let e = if f[3] == "BE" { End::BE } else { End::LE };
            let k: u64 = arg.parse().unwrap();
            let v: u64 = f[4].parse().unwrap();
            let bits = f[5];
            let code = match name {
                "unary" => Code::Unary,
                "gamma" => Code::Gamma,
                "delta" => Code::Delta,
                "zeta" => Code::Zeta(k as u32),
                "minbin" => Code::MinBin(k),
                _ => continue,
            };
            let b = encode(code, v, e);
            if b.to_string01() != bits {
                fail(format!("reference gives {}", b.to_string01()));
            }
            by_src[if src == "py" { 0 } else { 1 }] += 1;
        }
        count += 1;
    }
    // module-doc examples of omega and minimal binary (src/codes/omega.rs, src/codes/mod.rs)
    let omega_src = std::fs::read_to_string(format!("{}/src/codes/omega.rs", repo_dir())).unwrap_or_default();
    if omega_src.contains("formed by the blocks `11`, `1011`, and `0`") {
        // (the concatenated string printed in that sentence, `1110010`, has a typo; the blocks are authoritative
        // and agree with the unit-test vectors in the same file)
        assert_eq!(encode(Code::Omega, 10, End::BE).to_string01(), "1110110");
        count += 1;
    }
    if omega_src.contains("`0011111`") {
        let le: String = encode(Code::Omega, 10, End::LE).to_string01().chars().rev().collect();
        assert_eq!(le, "0011111");
        count += 1;
    }
    let mod_src = std::fs::read_to_string(format!("{}/src/codes/mod.rs", repo_dir())).unwrap_or_default();
    if mod_src.contains("`00`, `010`, `011`,") {
        let want = ["00", "010", "011", "100", "101", "110", "111"];
        for (x, w) in want.iter().enumerate() {
            assert_eq!(&encode(Code::MinBin(7), x as u64, End::BE).to_string01(), w);
            count += 1;
        }
        // "we have to encode 2 as 011 in the big-endian case, and as 101 in the little-endian case" (printed right to left)
        let le: String = encode(Code::MinBin(7), 2, End::LE).to_string01().chars().rev().collect();
        assert_eq!(le, "101");
        count += 1;
    }
    if count < 1000 || by_src[2] < 40 || by_src[1] < 20 {
        println!("MACHINERY: model validation found too few reference vectors ({} / {:?})", count, by_src);
        std::process::exit(2);
    }
    out.cov.notes.push(format!(
        "reference model validated on {} codewords: {} from python/gen_code_tables.py, {} from the documented table, {} regression vectors, plus module-doc examples",
        count, by_src[0], by_src[1], by_src[2]
    ));
    count
}
