//! C16, C17, C18, C20: properties of pure functions, decided on bounded-exhaustive grids.

use crate::disp::codes_of;
use crate::model::{Code, End};
use crate::pool::{run_all, threads, Task};
use crate::report::{CheckMeta, Outcome, Violation};
use crate::Ctx;
use dsi_bitstream::prelude::*;
use serde_json::json;

fn v(prop: &str, system: &str, config: String, op: &str, sym: &str, detail: String, replay: serde_json::Value) -> Violation {
    Violation { property: prop.into(), system: system.into(), config, op_class: op.into(), symptom: sym.into(), detail, replay }
}

// ------------------------------------------------------------------ C16

fn all_variants(p: usize) -> Vec<Codes> {
    vec![Codes::Zeta { k: p }, Codes::Pi { k: p }, Codes::Golomb { b: p }, Codes::ExpGolomb { k: p }, Codes::Rice { log2_b: p }]
}
fn plain_variants() -> Vec<Codes> {
    vec![Codes::Unary, Codes::Gamma, Codes::Delta, Codes::Omega, Codes::VByteLe, Codes::VByteBe]
}

/// bytes written for a value grid by a Codes value (None: the code cannot encode / panics)
fn codewords(c: Codes, e: End) -> Option<Vec<u8>> {
    let grid: [u64; 14] = [0, 1, 2, 3, 4, 5, 7, 8, 15, 16, 31, 100, 255, 1000];
    let r = std::panic::catch_unwind(|| {
        macro_rules! go {
            ($E:ty) => {{
                let mut w = BufBitWriter::<$E, _>::new(MemWordWriterVec::new(Vec::<u64>::new()));
                for x in grid {
                    if matches!(c, Codes::Unary | Codes::Rice { log2_b: 0 } | Codes::Golomb { b: 1 }) && x > 300 {
                        continue;
                    }
                    c.write(&mut w, x).unwrap();
                    w.write_bits(1, 1).unwrap();
                }
                crate::rd::bytes_from_words::<u64>(&w.into_inner().unwrap().into_inner())
            }};
        }
        match e {
            End::BE => go!(BE),
            End::LE => go!(LE),
        }
    });
    r.ok()
}

fn in_code_domain(c: &Codes) -> bool {
    match c {
        Codes::Zeta { k } => *k >= 1 && *k <= 63,
        Codes::Golomb { b } => *b >= 1,
        Codes::Pi { k } | Codes::ExpGolomb { k } => *k <= 63,
        Codes::Rice { log2_b } => *log2_b <= 63,
        _ => true,
    }
}

pub fn c16(ctx: &Ctx) -> (CheckMeta, Outcome) {
    let mut out = Outcome::new();
    if !crate::pool::is_primary() {
        return (c16_meta(), out);
    }
    let _ = ctx;
    out.cov.configs.insert("names".into());
    // (1) Display / FromStr round trip, structural
    let mut all: Vec<Codes> = plain_variants();
    let mut params: Vec<usize> = (0..=64).collect();
    params.extend([1usize << 31, usize::MAX, 1000, 65536]);
    for &p in &params {
        all.extend(all_variants(p));
    }
    for c in &all {
        out.cov.evaluations += 1;
        if !matches!(c, Codes::Unary | Codes::Gamma | Codes::Delta | Codes::Omega) {
            out.cov.nontrivial += 1;
        }
        let s = c.to_string();
        match s.parse::<Codes>() {
            Ok(c2) if format!("{:?}", c2) == format!("{:?}", c) => {}
            other => out.violations.push(v("C16", "names", "roundtrip".into(), "parse", "value", format!("{:?} prints as {:?} which parses as {:?}", c, s, other.map(|x| format!("{:?}", x)).map_err(|e| e.to_string())), json!({"kind": "name", "text": s}))),
        }
    }
    // formatting with a width / alignment (space fill): whatever the implementation does with the
    // flags, the text must still parse (surrounding padding is trimmed first) to the same code
    for c in &all {
        let texts = [format!("{:4}", c), format!("{:>12}", c), format!("{:<12}", c), format!("{:^15}", c), format!("{:1}", c)];
        for s in texts {
            out.cov.evaluations += 1;
            match s.trim().parse::<Codes>() {
                Ok(c2) if format!("{:?}", c2) == format!("{:?}", c) => {}
                other => {
                    out.violations.push(v("C16", "names", "roundtrip".into(), "parse", "value", format!("{:?} formatted with a width prints as {:?} which parses as {:?}", c, s, other.map(|x| format!("{:?}", x)).map_err(|e| e.to_string())), json!({"kind": "name", "text": s})));
                    break;
                }
            }
        }
    }
    out.cov.sample(json!({"roundtrip": all.iter().take(12).map(|c| c.to_string()).collect::<Vec<_>>()}));
    // (2) malformed text must be rejected
    let param_names = ["Zeta", "Pi", "Golomb", "ExpGolomb", "Rice"];
    let bad_names = ["", "gamma", "GAMMA", "unary", "Foo", "Zet", "Zetaa", "zeta", "vbytebe", "VByte", "Rice2", " Gamma", "Gamma "];
    let bad_params = ["", "()", "(x)", "(-1)", "(1.5)", "(99999999999999999999999)", "(0x10)", "(3"];
    let mut malformed: Vec<String> = vec![];
    for n in bad_names {
        malformed.push(n.to_string());
        for p in ["(3)", "()", "(x)"] {
            malformed.push(format!("{}{}", n, p));
        }
    }
    for n in param_names {
        for p in bad_params {
            if p == "(3" {
                continue; // a missing ')' after a valid number is trailing-syntax, not constrained by the property
            }
            malformed.push(format!("{}{}", n, p));
        }
    }
    // junk around a valid text: the NAME part is then not a code name
    let valid = ["Unary", "Gamma", "Delta", "Omega", "VByteLe", "VByteBe", "Zeta(3)", "Pi(2)", "Golomb(7)", "ExpGolomb(4)", "Rice(5)"];
    for t in valid {
        for pre in ["x", " ", "::", "Foo::", "Codes::", "Golomb::", "-", "0", "(", "é", "\u{3b3}"] {
            malformed.push(format!("{}{}", pre, t));
        }
        let (name, rest) = match t.find('(') {
            Some(i) => (&t[..i], &t[i..]),
            None => (t, ""),
        };
        for suf in ["x", " ", "_", "é", "1"] {
            malformed.push(format!("{}{}{}", name, suf, rest));
        }
    }
    // a closing bracket where the opening one belongs: the name part (up to the first '(') is then
    // not a code name
    for n in param_names {
        for t in [")3", ")3(", ")3)", ")", "))", ")3)(", ")(3)", ") 3"] {
            malformed.push(format!("{}{}", n, t));
        }
    }
    for n in ["Gamma", "Unary", "VByteBe"] {
        malformed.push(format!("{})", n));
        malformed.push(format!("{})3", n));
    }
    // multi-byte characters at every byte offset modulo their width, with and without a parameter
    // (an error path that cuts the text at a fixed byte offset must not split a character)
    for shift in 0..4usize {
        for ch in ["é", "€", "\u{1F600}"] {
            let body = ch.repeat(70);
            let name = format!("{}{}", "x".repeat(shift), body);
            malformed.push(name.clone());
            malformed.push(format!("{}(3)", name));
            malformed.push(format!("{}()", name));
            malformed.push(format!("Zeta({})", name));
        }
    }
    // long and non-ASCII texts (error paths that quote the input must not panic)
    for n in [31usize, 32, 33, 40, 64, 200] {
        malformed.push("x".repeat(n));
        malformed.push(format!("x{}", "é".repeat(n / 2)));
        malformed.push(format!("{}(3)", "é".repeat(n / 2)));
        malformed.push(format!("Zeta({})", "é".repeat(n / 2)));
        malformed.push(format!("{}\u{1F600}", "y".repeat(n - 1)));
    }
    for s in &malformed {
        out.cov.evaluations += 1;
        out.cov.nontrivial += 1;
        let r = std::panic::catch_unwind(|| s.parse::<Codes>());
        match r {
            Ok(Err(_)) => {}
            Ok(Ok(c)) => out.violations.push(v("C16", "names", "malformed".into(), "parse", "no-error", format!("{:?} is accepted as {:?}", s, c), json!({"kind": "name", "text": s}))),
            Err(_) => out.violations.push(v("C16", "names", "malformed".into(), "parse", "panic", format!("parsing {:?} panicked", s), json!({"kind": "name", "text": s}))),
        }
    }
    out.cov.sample(json!({"malformed": malformed.iter().take(10).collect::<Vec<_>>()}));
    // (3) identifiers
    for id in 0..=80usize {
        out.cov.evaluations += 1;
        match (id <= 50, Codes::from_code_const(id)) {
            (true, Ok(c)) => match c.to_code_const() {
                Ok(i2) if i2 == id => {}
                other => out.violations.push(v("C16", "ids", "roundtrip".into(), "from_code_const", "value", format!("identifier {} maps to {:?} which maps back to {:?}", id, c, other.map_err(|e| e.to_string())), json!({"kind": "id", "id": id}))),
            },
            (true, Err(e)) => out.violations.push(v("C16", "ids", "roundtrip".into(), "from_code_const", "error", format!("identifier {} rejected: {}", id, e), json!({"kind": "id", "id": id}))),
            (false, Ok(c)) => out.violations.push(v("C16", "ids", "range".into(), "from_code_const", "no-error", format!("out-of-range identifier {} accepted as {:?}", id, c), json!({"kind": "id", "id": id}))),
            (false, Err(_)) => {}
        }
    }
    // out-of-range identifiers: everything up to 70 000, and 0..=60 above every power of two (an
    // identifier reduced modulo a table size would come back as a code)
    let mut far: Vec<usize> = (81..=70_000usize).collect();
    for k in 8..usize::BITS {
        for j in 0..=60usize {
            far.push((1usize << k).wrapping_add(j));
        }
    }
    far.extend([usize::MAX, usize::MAX - 1, usize::MAX - 50, usize::MAX / 2, usize::MAX / 2 + 1]);
    let mut reported = 0;
    for id in far {
        out.cov.evaluations += 1;
        if let Ok(c) = Codes::from_code_const(id) {
            reported += 1;
            if reported <= 5 {
                out.violations.push(v("C16", "ids", "range".into(), "from_code_const", "no-error", format!("out-of-range identifier {} accepted as {:?}", id, c), json!({"kind": "id", "id": id})));
            }
        }
    }
    // (4) to_code_const then from_code_const gives identical codewords
    let mut small: Vec<Codes> = plain_variants();
    for p in 0..=16usize {
        small.extend(all_variants(p));
    }
    let small: Vec<Codes> = small.into_iter().filter(in_code_domain).collect();
    for c in &small {
        if let Ok(id) = c.to_code_const() {
            out.cov.evaluations += 1;
            match Codes::from_code_const(id) {
                Ok(c2) => {
                    for e in End::BOTH {
                        if codewords(*c, e) != codewords(c2, e) {
                            out.violations.push(v("C16", "ids", e.name().into(), "to_code_const", "bytes", format!("{:?} -> identifier {} -> {:?}, whose codewords differ", c, id, c2), json!({"kind": "id", "id": id})));
                        }
                    }
                }
                Err(e) => out.violations.push(v("C16", "ids", "roundtrip".into(), "to_code_const", "error", format!("{:?} -> identifier {} which is rejected: {}", c, id, e), json!({"kind": "id", "id": id}))),
            }
        }
    }
    // (5) codes that compare equal have identical codewords
    let mut eq_pairs = 0u64;
    for a in &small {
        for b in &small {
            if a == b && format!("{:?}", a) != format!("{:?}", b) {
                eq_pairs += 1;
                out.cov.evaluations += 1;
                out.cov.nontrivial += 1;
                for e in End::BOTH {
                    if codewords(*a, e) != codewords(*b, e) {
                        out.violations.push(v("C16", "eq", e.name().into(), "eq", "bytes", format!("{:?} == {:?} but their codewords differ", a, b), json!({"kind": "none"})));
                    }
                }
            }
        }
    }
    out.cov.add_extra("equal_but_distinct_pairs", eq_pairs);
    (c16_meta(), out)
}

fn c16_meta() -> CheckMeta {
    CheckMeta {
        property: "C16".into(),
        level: "exploration".into(),
        rule: "complete enumeration: (1) every Codes variant x parameter 0..=64, 1000, 65536, 2^31, usize::MAX: parse(to_string(c)) is structurally c (Debug), also when formatted with a width/alignment ({:4}, {:>12}, {:<12}, {:^15}; outer padding trimmed); (2) a grammar of malformed texts (13 non-names x {none,(3),(),(x)}; 5 parametric names x {missing, (), (x), (-1), (1.5), overflowing, (0x10)}; every valid text with 11 prefixes (x, space, ::, Foo::, Codes::, ...) and its name with 5 suffixes; ')' in the place of '('; long (31..200 bytes) and non-ASCII texts, 2/3/4-byte characters at every byte offset modulo their width) must be Err, never a code, never a panic; (3) identifiers 0..=50 map to a code that maps back to the same identifier, 51..=70 000, 2^k+0..60 for every k >= 8 and the neighbourhood of usize::MAX are Err; (4) to_code_const then from_code_const gives identical codewords (14-value grid, both endiannesses) for every variant with parameter 0..=16; (5) all pairs of those codes that compare == but are structurally different write identical bytes; non-trivial = parametric or malformed case".into(),
        assumptions: vec!["trailing text after a valid parameter and a parameter on a parameterless name are not constrained (the property does not mention them)".into()],
    }
}

// ------------------------------------------------------------------ C17

macro_rules! zigzag_check {
    ($U:ty, $I:ty, $xs:expr, $out:expr, $name:expr) => {{
        // a panic inside a conversion (e.g. an arithmetic overflow in a build with overflow checks) is a
        // finding about the value being converted, not a failure of the harness
        let mut last: $I = 0;
        let r = std::panic::catch_unwind(std::panic::AssertUnwindSafe(|| {
            for x in $xs {
                let x: $I = x;
                last = x;
                $out.cov.evaluations += 1;
                let nat: $U = x.to_nat();
                // formula: x >= 0 -> 2x ; x < 0 -> -2x-1 = 2*(!x)+1
                let want: $U = if x >= 0 { (x as $U) << 1 } else { (((!x) as $U) << 1) | 1 };
                if nat != want {
                    $out.violations.push(v("C17", "zigzag", $name.into(), "to_nat", "value", format!("{}::to_nat({}) = {} expected {}", $name, x, nat, want), json!({"kind": "none"})));
                    break;
                }
                // the same conversions called on references (method resolution reaches them through
                // auto-deref today; an implementation for reference types would be picked first)
                let rx: &$I = &x;
                let rnat: &$U = &nat;
                if rx.to_nat() != want || rnat.to_int() != x {
                    $out.violations.push(v("C17", "zigzag", $name.into(), "to_nat", "value", format!("called on a reference: (&{}).to_nat() = {}, (&{}).to_int() = {}", x, rx.to_nat(), nat, rnat.to_int()), json!({"kind": "none"})));
                    break;
                }
                let back: $I = nat.to_int();
                if back != x {
                    $out.violations.push(v("C17", "zigzag", $name.into(), "to_int", "value", format!("to_int(to_nat({})) = {}", x, back), json!({"kind": "none"})));
                    break;
                }
                // the other direction on the same bit pattern
                let n: $U = x as $U;
                let i: $I = n.to_int();
                let wanti: $I = if n & 1 == 0 { (n >> 1) as $I } else { !((n >> 1) as $I) };
                if i != wanti || i.to_nat() != n {
                    $out.violations.push(v("C17", "zigzag", $name.into(), "to_int", "value", format!("{}::to_int({}) = {} expected {}", $name, n, i, wanti), json!({"kind": "none"})));
                    break;
                }
                if x < 0 || x > 100 {
                    $out.cov.nontrivial += 1;
                }
            }
        }));
        if let Err(p) = r {
            $out.violations.push(v("C17", "zigzag", $name.into(), "to_nat/to_int", "panic", format!("converting {} (bit pattern {:#x}) of {} panicked: {}", last, last as $U, $name, crate::util::panic_msg(&p)), json!({"kind": "none"})));
        }
    }};
}

macro_rules! windows {
    ($I:ty, $U:ty, $bits:expr, $half:expr) => {{
        // all values within `half` of 0, MIN, MAX and of every power of two (as signed bit patterns)
        let mut v: Vec<$I> = vec![];
        let half: i128 = $half;
        let mut centers: Vec<$U> = vec![0, <$I>::MIN as $U, <$I>::MAX as $U, <$U>::MAX];
        for i in 0..$bits {
            centers.push((1 as $U) << i);
        }
        for c in centers {
            for d in -half..=half {
                v.push((c.wrapping_add(d as $U)) as $I);
            }
        }
        v
    }};
}

pub fn c17(ctx: &Ctx) -> (CheckMeta, Outcome) {
    let mut tasks: Vec<Task> = vec![];
    tasks.push(Box::new(|| {
        let mut out = Outcome::new();
        out.cov.configs.insert("i8/u8".into());
        out.cov.configs.insert("i16/u16".into());
        zigzag_check!(u8, i8, i8::MIN..=i8::MAX, out, "i8");
        zigzag_check!(u16, i16, i16::MIN..=i16::MAX, out, "i16");
        out.cov.sample(json!({"i8": [[-1, (-1i8).to_nat()], [-128, (-128i8).to_nat()], [127, 127i8.to_nat()]]}));
        out
    }));
    let thorough = ctx.thorough;
    let half: i128 = if thorough { 1 << 20 } else { 1 << 16 };
    // 32 bits: complete (split in 64 ranges)
    if true {
        for part in 0..64i64 {
            tasks.push(Box::new(move || {
                let mut out = Outcome::new();
                out.cov.configs.insert("i32/u32 (complete)".into());
                let lo = i32::MIN as i64 + part * (1i64 << 26);
                let hi = lo + (1i64 << 26) - 1;
                zigzag_check!(u32, i32, (lo..=hi).map(|x| x as i32), out, "i32");
                out
            }));
        }
    } else {
        tasks.push(Box::new(move || {
            let mut out = Outcome::new();
            out.cov.configs.insert("i32/u32 (windows)".into());
            zigzag_check!(u32, i32, windows!(i32, u32, 32, half), out, "i32");
            out
        }));
    }
    tasks.push(Box::new(move || {
        let mut out = Outcome::new();
        out.cov.configs.insert("i64/u64".into());
        zigzag_check!(u64, i64, windows!(i64, u64, 64, half), out, "i64");
        out
    }));
    // values with two set bits (+-2) and limb-boundary patterns: carries/borrows between 64-bit halves
    tasks.push(Box::new(move || {
        let mut out = Outcome::new();
        out.cov.configs.insert("i128/u128 (two-bit sums, limb patterns)".into());
        let mut v: Vec<i128> = vec![];
        for a in 0..128u32 {
            for b in 0..=a {
                for d in -2i128..=2 {
                    let x = (1u128 << a).wrapping_add(1u128 << b).wrapping_add(d as u128);
                    v.push(x as i128);
                    v.push((x as i128).wrapping_neg());
                    v.push(!(x as i128));
                }
            }
        }
        let lows: [u64; 10] = [0, 1, 2, (1 << 63) - 1, 1 << 63, (1 << 63) + 1, u64::MAX - 1, u64::MAX, 0x5555_5555_5555_5555, 0xAAAA_AAAA_AAAA_AAAA];
        let highs: [u64; 14] = [0, 1, 2, 3, 4, 5, 0x7FFF_FFFF_FFFF_FFFE, 0x7FFF_FFFF_FFFF_FFFF, 1 << 63, (1 << 63) + 1, u64::MAX - 2, u64::MAX - 1, u64::MAX, 0x1234_5678_9ABC_DEF0];
        for h in highs {
            for l in lows {
                v.push((((h as u128) << 64) | l as u128) as i128);
            }
        }
        zigzag_check!(u128, i128, v, out, "i128");
        let mut v64: Vec<i64> = vec![];
        for a in 0..64u32 {
            for b in 0..=a {
                for d in -2i64..=2 {
                    let x = (1u64 << a).wrapping_add(1u64 << b).wrapping_add(d as u64);
                    v64.push(x as i64);
                    v64.push((x as i64).wrapping_neg());
                }
            }
        }
        for h in [0u32, 1, 2, 3, 0x7FFF_FFFF, 0x8000_0000, 0x8000_0001, u32::MAX - 1, u32::MAX] {
            for l in [0u32, 1, 0x7FFF_FFFF, 0x8000_0000, u32::MAX - 1, u32::MAX] {
                v64.push((((h as u64) << 32) | l as u64) as i64);
            }
        }
        zigzag_check!(u64, i64, v64.clone(), out, "i64");
        zigzag_check!(usize, isize, v64.into_iter().map(|x| x as isize), out, "isize");
        out
    }));
    tasks.push(Box::new(move || {
        let mut out = Outcome::new();
        out.cov.configs.insert("i128/u128".into());
        zigzag_check!(u128, i128, windows!(i128, u128, 128, half), out, "i128");
        if let Ok(n) = std::panic::catch_unwind(|| i128::MIN.to_nat()) {
            out.cov.sample(json!({"i128": [i128::MIN.to_string(), n.to_string()]}));
        }
        out
    }));
    tasks.push(Box::new(move || {
        let mut out = Outcome::new();
        out.cov.configs.insert("isize/usize".into());
        zigzag_check!(usize, isize, windows!(isize, usize, 64, half), out, "isize");
        out
    }));
    let mut out = run_all(tasks, threads());
    out.cov.exhaustive = true;
    let meta = CheckMeta {
        property: "C17".into(),
        level: "exploration".into(),
        rule: "complete enumeration of i8/u8, i16/u16 and i32/u32 (all 2^32 values); for 64, 128 bits and pointer size every bit pattern within 2^16 (thorough 2^20) of 0, MIN, MAX, all-ones and of every power of two, plus every value with two set bits +-2 (and its negation / complement) and 140 limb-boundary patterns (low/high 64-bit halves from {0,1,2,2^63-1,2^63,2^63+1,2^64-2,2^64-1,...}); oracle: the closed formulas (x >= 0 -> 2x, x < 0 -> 2*(!x)+1 = -2x-1; n even -> n/2, n odd -> !(n/2)) and mutual inversion in both directions; non-trivial = negative or > 100".into(),
        assumptions: vec![],
    };
    (meta, out)
}

// ------------------------------------------------------------------ C18

fn vbyte_values(seed: u64, dense: u64) -> Vec<u64> {
    let mut s = crate::grid::boundary_values_raw(Code::VByteBe, seed, 64);
    for x in 0..dense {
        s.insert(x);
    }
    s.into_iter().collect()
}

fn bitstream_vbyte(e: End, wbits: usize, big: bool, lead: usize, val: u64) -> Result<(Vec<u8>, usize), String> {
    use crate::wr::{run_on_backend, WObs, WOp};
    let mut ops: Vec<WOp> = (0..lead).map(|i| WOp::WriteBits { v: 0xC3 ^ i as u64, n: 8 }).collect();
    ops.push(WOp::Code { code: if big { Code::VByteBe } else { Code::VByteLe }, v: val });
    ops.push(WOp::WriteBits { v: 0x5A, n: 8 });
    let fo = run_on_backend(e, wbits, "vec", "into_inner", &ops, 8)?;
    match fo.obs.get(lead) {
        Some(WObs::Ret(n)) => Ok((fo.bytes, *n)),
        other => Err(format!("{:?}", other)),
    }
}

pub fn c18(ctx: &Ctx) -> (CheckMeta, Outcome) {
    let mut tasks: Vec<Task> = vec![];
    let dense: u64 = 1 << 21;
    let seed = ctx.seed;
    let thorough = ctx.thorough;
    // (1) io functions vs reference bytes, inversion, lengths; generic entry points
    for part in 0..16u64 {
        tasks.push(Box::new(move || {
            let mut out = Outcome::new();
            out.cov.configs.insert("io-functions".into());
            let vals = vbyte_values(seed, dense);
            for (i, &x) in vals.iter().enumerate() {
                if i as u64 % 16 != part {
                    continue;
                }
                out.cov.evaluations += 1;
                for big in [true, false] {
                    let want = crate::model::vbyte_bytes(x, big);
                    let mut buf: Vec<u8> = vec![];
                    let n = if big { vbyte_write_be(x, &mut buf) } else { vbyte_write_le(x, &mut buf) };
                    let mut gen: Vec<u8> = vec![];
                    let ng = if big { vbyte_write::<BE, _>(x, &mut gen) } else { vbyte_write::<LE, _>(x, &mut gen) };
                    // a conforming sink that accepts at most 3 bytes per call, and a source that yields 1 byte per call
                    let mut chunked = crate::wr::ChunkSink(Vec::new());
                    let nc = if big { vbyte_write_be(x, &mut chunked) } else { vbyte_write_le(x, &mut chunked) };
                    struct OneByte<'a>(&'a [u8], usize);
                    impl<'a> std::io::Read for OneByte<'a> {
                        fn read(&mut self, buf: &mut [u8]) -> std::io::Result<usize> {
                            if buf.is_empty() || self.1 >= self.0.len() {
                                return Ok(0);
                            }
                            buf[0] = self.0[self.1];
                            self.1 += 1;
                            Ok(1)
                        }
                    }
                    let name = if big { "be" } else { "le" };
                    let mut fail: Option<String> = None;
                    if buf != want {
                        fail = Some(format!("vbyte_write_{}({}) wrote {} expected {}", name, x, crate::util::hex(&buf), crate::util::hex(&want)));
                    } else if n.as_ref().ok() != Some(&want.len()) || byte_len_vbyte(x) != want.len() || bit_len_vbyte(x) != 8 * want.len() {
                        fail = Some(format!("length of {}: write returned {:?}, byte_len_vbyte {}, reference {}", x, n.ok(), byte_len_vbyte(x), want.len()));
                    } else if gen != want || ng.ok() != Some(want.len()) {
                        fail = Some(format!("generic vbyte_write::<{}> wrote {} for {}", name, crate::util::hex(&gen), x));
                    } else if chunked.0 != want || nc.ok() != Some(want.len()) {
                        fail = Some(format!("vbyte_write_{}({}) into a sink accepting 3 bytes per call wrote {} (expected {})", name, x, crate::util::hex(&chunked.0), crate::util::hex(&want)));
                    } else if {
                        let mut ob = OneByte(&want, 0);
                        let r = if big { vbyte_read_be(&mut ob) } else { vbyte_read_le(&mut ob) };
                        r.ok() != Some(x) || ob.1 != want.len()
                    } {
                        fail = Some(format!("vbyte_read_{} from a source yielding one byte per call misreads {}", name, crate::util::hex(&want)));
                    } else {
                        let mut cur = std::io::Cursor::new(&want);
                        let r = if big { vbyte_read_be(&mut cur) } else { vbyte_read_le(&mut cur) };
                        let mut cur2 = std::io::Cursor::new(&want);
                        let rg = if big { vbyte_read::<BE, _>(&mut cur2) } else { vbyte_read::<LE, _>(&mut cur2) };
                        if r.as_ref().ok() != Some(&x) || cur.position() as usize != want.len() {
                            fail = Some(format!("vbyte_read_{} of {} gave {:?} at position {}", name, crate::util::hex(&want), r.ok(), cur.position()));
                        } else if rg.ok() != Some(x) {
                            fail = Some(format!("generic vbyte_read::<{}> of {} is wrong", name, crate::util::hex(&want)));
                        }
                    }
                    // a source that ENDS inside the codeword (every proper prefix, the empty one included): the
                    // string is not terminated, so nothing may be returned as its value
                    if fail.is_none() {
                        for cut in 0..want.len() {
                            let mut cur = std::io::Cursor::new(&want[..cut]);
                            let r = if big { vbyte_read_be(&mut cur) } else { vbyte_read_le(&mut cur) };
                            out.cov.evaluations += 1;
                            if let Ok(y) = r {
                                fail = Some(format!("vbyte_read_{} of the unterminated string {} (the first {} of {} bytes of the codeword of {}) returned {}", name, crate::util::hex(&want[..cut]), cut, want.len(), x, y));
                                break;
                            }
                        }
                    }
                    // a source / sink that answers ErrorKind::Interrupted once, before byte j of the codeword
                    // (nothing is transferred by such a call): the function may report the error, but a
                    // result it does return must be the right one
                    if fail.is_none() {
                        struct IntrSrc<'a>(&'a [u8], usize, usize, bool);
                        impl<'a> std::io::Read for IntrSrc<'a> {
                            fn read(&mut self, buf: &mut [u8]) -> std::io::Result<usize> {
                                if self.1 == self.2 && !self.3 {
                                    self.3 = true;
                                    return Err(std::io::Error::new(std::io::ErrorKind::Interrupted, "interrupted"));
                                }
                                if buf.is_empty() || self.1 >= self.0.len() {
                                    return Ok(0);
                                }
                                buf[0] = self.0[self.1];
                                self.1 += 1;
                                Ok(1)
                            }
                        }
                        struct IntrSink(Vec<u8>, usize, bool);
                        impl std::io::Write for IntrSink {
                            fn write(&mut self, buf: &[u8]) -> std::io::Result<usize> {
                                if self.0.len() >= self.1 && !self.2 {
                                    self.2 = true;
                                    return Err(std::io::Error::new(std::io::ErrorKind::Interrupted, "interrupted"));
                                }
                                // never past the interruption point in one call
                                let room = if self.2 { buf.len() } else { (self.1 - self.0.len()).min(buf.len()) };
                                self.0.extend_from_slice(&buf[..room]);
                                Ok(room)
                            }
                            fn flush(&mut self) -> std::io::Result<()> {
                                Ok(())
                            }
                        }
                        for j in 0..want.len() {
                            let mut src = IntrSrc(&want, 0, j, false);
                            let r = if big { vbyte_read_be(&mut src) } else { vbyte_read_le(&mut src) };
                            if let Ok(y) = r {
                                if y != x || src.1 != want.len() {
                                    fail = Some(format!("vbyte_read_{} of {} from a source that answers Interrupted once before byte {} returned {} having consumed {} bytes", name, crate::util::hex(&want), j, y, src.1));
                                    break;
                                }
                            }
                            let mut sink = IntrSink(Vec::new(), j, false);
                            let r = if big { vbyte_write_be(x, &mut sink) } else { vbyte_write_le(x, &mut sink) };
                            if let Ok(n) = r {
                                if sink.0 != want || n != want.len() {
                                    fail = Some(format!("vbyte_write_{}({}) into a sink that answers Interrupted once before byte {} returned Ok({}) having written {} (expected {})", name, x, j, n, crate::util::hex(&sink.0), crate::util::hex(&want)));
                                    break;
                                }
                            }
                            out.cov.evaluations += 2;
                        }
                    }
                    if let Some(d) = fail {
                        if out.violations.len() < 20 {
                            out.violations.push(v("C18", "vbyte-io", name.into(), "io", "value", d, json!({"kind": "none"})));
                        }
                    }
                }
                if x >= 128 {
                    out.cov.nontrivial += 1;
                }
            }
            out
        }));
    }
    // (2) bit-stream traits vs io functions at byte-aligned positions, every stream endianness and word size
    for e in End::BOTH {
        for wbits in crate::wr::WBITS {
            tasks.push(Box::new(move || {
                let mut out = Outcome::new();
                out.cov.configs.insert(format!("bitstream/{}/w{}", e.name(), wbits));
                let mut vals: Vec<u64> = crate::grid::boundary_values_raw(Code::VByteBe, seed, 16).into_iter().collect();
                vals.extend(0..(if thorough { 1 << 14 } else { 1 << 10 }));
                for &x in &vals {
                    for big in [true, false] {
                        for lead in [0usize, 1, 3] {
                            out.cov.evaluations += 1;
                            let want_code = crate::model::vbyte_bytes(x, big);
                            let mut io: Vec<u8> = vec![];
                            let _ = if big { vbyte_write_be(x, &mut io) } else { vbyte_write_le(x, &mut io) };
                            match bitstream_vbyte(e, wbits, big, lead, x) {
                                Ok((bytes, n)) => {
                                    let got = &bytes[lead..(lead + io.len()).min(bytes.len())];
                                    if got != &io[..] || n != 8 * io.len() || bytes.get(lead + io.len()) != Some(&0x5A) || io != want_code {
                                        if out.violations.len() < 20 {
                                            out.violations.push(v("C18", "vbyte-bitstream", format!("{}/w{}", e.name(), wbits), "write", "bytes", format!("value {} ({}), {} leading bytes: bit stream holds {} (returned {} bits), io function wrote {}", x, if big { "BE code" } else { "LE code" }, lead, crate::util::hex(got), n, crate::util::hex(&io)), json!({"kind": "none"})));
                                        }
                                    } else {
                                        // read back through the bit-stream trait
                                        let mut padded = bytes.clone();
                                        while padded.len() % 16 != 0 {
                                            padded.push(0);
                                        }
                                        let mut rd = crate::rd::make_reader(e, "buf32", "memzx", "", &padded);
                                        rd.apply(&crate::rd::ROp::Skip(8 * lead as u16));
                                        let o = rd.apply(if big { &crate::rd::ROp::VByteBe } else { &crate::rd::ROp::VByteLe });
                                        if o != crate::rd::RObs::Val(x) {
                                            out.violations.push(v("C18", "vbyte-bitstream", format!("{}/w{}", e.name(), wbits), "read", "value", format!("value {} read back as {:?}", x, o), json!({"kind": "none"})));
                                        }
                                    }
                                }
                                Err(m) => out.violations.push(v("C18", "vbyte-bitstream", format!("{}/w{}", e.name(), wbits), "write", "error", m, json!({"kind": "none"}))),
                            }
                            if x >= 128 {
                                out.cov.nontrivial += 1;
                            }
                        }
                    }
                }
                out
            }));
        }
    }
    // (2b) bit-stream codes whose last byte is the last byte of a strict stream
    for e in End::BOTH {
        for kind in crate::rd::KINDS {
            let diag = ctx.diag.clone();
            tasks.push(Box::new(move || {
                let mut out = Outcome::new();
                out.cov.configs.insert(format!("bitstream-tail/{}/{}", e.name(), kind));
                let vals: Vec<u64> = (0..200).chain([16511, 16512, 2113663, 2113664, 1 << 32, u64::MAX - 1, u64::MAX]).collect();
                for code in [Code::VByteBe, Code::VByteLe] {
                    for &x in &vals {
                        for backend in ["memstrict", "cursor"] {
                            for extra in [0usize, 1] {
                                crate::streams::check_tail_exact(e, kind, backend, code, x, extra, &diag, "C18", &mut out);
                            }
                        }
                    }
                }
                out
            }));
        }
    }
    // (3) completeness: every terminated string of length <= 3
    for first in 0..128u32 {
        tasks.push(Box::new(move || {
            let mut out = Outcome::new();
            out.cov.configs.insert("completeness".into());
            let mut check = |s: &[u8], out: &mut Outcome| {
                out.cov.evaluations += 1;
                if s.len() > 1 {
                    out.cov.nontrivial += 1;
                }
                for big in [true, false] {
                    let mut cur = std::io::Cursor::new(s);
                    let r = if big { vbyte_read_be(&mut cur) } else { vbyte_read_le(&mut cur) };
                    let ok = match r {
                        Ok(val) => {
                            let mut buf = vec![];
                            let _ = if big { vbyte_write_be(val, &mut buf) } else { vbyte_write_le(val, &mut buf) };
                            buf == s && cur.position() as usize == s.len()
                        }
                        Err(_) => false,
                    };
                    if !ok && out.violations.len() < 10 {
                        out.violations.push(v("C18", "vbyte-complete", if big { "be".into() } else { "le".into() }, "decode-encode", "value", format!("terminated string {} does not decode to a value whose encoding is the same string", crate::util::hex(s)), json!({"kind": "none"})));
                    }
                }
            };
            let f = first as u8;
            check(&[f], &mut out);
            for b in 0..128u8 {
                check(&[f | 0x80, b], &mut out);
                for c in 0..128u8 {
                    check(&[f | 0x80, b | 0x80, c], &mut out);
                }
            }
            if first == 1 {
                out.cov.sample(json!({"string": "818000", "decodes_be": vbyte_read_be(&mut std::io::Cursor::new([0x81u8, 0x80, 0x00])).ok()}));
            }
            out
        }));
    }
    {
        // ALL terminated strings of length 4 (128^4 = 268 435 456 per variant); thorough: also length 5 (128^5)
        let lens: Vec<usize> = if thorough { vec![4, 5] } else { vec![4] };
        for len in lens {
            for first in 0..128u32 {
                for second in 0..128u32 {
                    if len == 4 && second % 16 != 0 {
                        continue; // length 4: one task covers 16 second bytes
                    }
                    tasks.push(Box::new(move || {
                        let mut out = Outcome::new();
                        out.cov.configs.insert(format!("completeness-len{}", len));
                        let seconds: Vec<u32> = if len == 4 { (second..second + 16).collect() } else { vec![second] };
                        let mut s = [0u8; 5];
                        s[0] = first as u8 | 0x80;
                        let mut n_eval = 0u64;
                        for b in seconds {
                            s[1] = b as u8 | 0x80;
                            for c in 0..128u32 {
                                s[2] = c as u8 | 0x80;
                                for d in 0..128u32 {
                                    let last_range: Vec<u32> = if len == 4 { vec![0] } else { (0..128).collect() };
                                    if len == 4 {
                                        s[3] = d as u8;
                                    } else {
                                        s[3] = d as u8 | 0x80;
                                    }
                                    for e5 in last_range {
                                        if len == 5 {
                                            s[4] = e5 as u8;
                                        }
                                        let st = &s[..len];
                                        for big in [true, false] {
                                            let mut cur = std::io::Cursor::new(st);
                                            let r = if big { vbyte_read_be(&mut cur) } else { vbyte_read_le(&mut cur) };
                                            let ok = match r {
                                                Ok(val) => {
                                                    let mut buf = [0u8; 12];
                                                    let mut w = std::io::Cursor::new(&mut buf[..]);
                                                    let n = if big { vbyte_write_be(val, &mut w) } else { vbyte_write_le(val, &mut w) };
                                                    n.ok() == Some(len) && &buf[..len] == st
                                                }
                                                Err(_) => false,
                                            };
                                            if !ok && out.violations.len() < 5 {
                                                out.violations.push(v("C18", "vbyte-complete", if big { "be".into() } else { "le".into() }, "decode-encode", "value", format!("terminated string {} does not decode to a value whose encoding is the same string", crate::util::hex(st)), json!({"kind": "none"})));
                                            }
                                        }
                                        n_eval += 1;
                                    }
                                }
                            }
                        }
                        out.cov.evaluations += n_eval;
                        out.cov.nontrivial += n_eval;
                        out
                    }));
                }
            }
        }
    }
    // longer strings (seeded) whose value fits 64 bits
    tasks.push(Box::new(move || {
        let mut out = Outcome::new();
        let mut r = crate::util::Rng::new(seed ^ 0x7B);
        for _ in 0..200_000 {
            let len = 4 + (r.next() % 6) as usize;
            let mut s: Vec<u8> = (0..len).map(|_| (r.next() as u8) | 0x80).collect();
            s[len - 1] &= 0x7F;
            if len == 9 || len >= 9 {
                s[0] = 0x80; // keep the value within 64 bits
                if len == 10 {
                    continue;
                }
            }
            for big in [true, false] {
                let mut s2 = s.clone();
                if !big {
                    // little-endian: the most significant group is the last byte
                    s2.reverse();
                    for b in s2.iter_mut() {
                        *b |= 0x80;
                    }
                    let l = s2.len() - 1;
                    s2[l] &= 0x7F;
                }
                out.cov.evaluations += 1;
                let mut cur = std::io::Cursor::new(&s2);
                let rr = if big { vbyte_read_be(&mut cur) } else { vbyte_read_le(&mut cur) };
                if let Ok(val) = rr {
                    let mut buf = vec![];
                    let _ = if big { vbyte_write_be(val, &mut buf) } else { vbyte_write_le(val, &mut buf) };
                    if buf != s2 && out.violations.len() < 10 {
                        out.violations.push(v("C18", "vbyte-complete", if big { "be".into() } else { "le".into() }, "decode-encode", "value", format!("string {} decodes to {} which encodes as {}", crate::util::hex(&s2), val, crate::util::hex(&buf)), json!({"kind": "none"})));
                    }
                }
            }
        }
        out
    }));
    let out = run_all(tasks, threads());
    let meta = CheckMeta {
        property: "C18".into(),
        level: "exploration".into(),
        rule: "(1) every value below 2^21, every length-step boundary +-2 up to 10 bytes, 2^64-1 and seeded values: vbyte_write_be/le and the generic vbyte_write::<E> vs the reference (offset definition of the complete code), returned length, byte_len_vbyte/bit_len_vbyte, vbyte_read_* inversion and bytes consumed, also into a sink that accepts 3 bytes per call and from a source that yields one byte per call, and from/into a source/sink that answers ErrorKind::Interrupted once before byte j for every j (a reported error is accepted, a wrong result is not), and from sources that end inside the codeword (every proper prefix must be an error); the value set includes every 7-bit group of every codeword length on its own and in pairs with different patterns; (2) bit-stream write_vbyte_be/le at byte-aligned positions (0, 1, 3 leading bytes) for both stream endiannesses and every writer word 8..128 vs the io functions, read back with the bit-stream trait; bit-stream codes ending with the last byte of a strict stream (every reader kind); (3) completeness: ALL 2 113 664 terminated byte strings of length <= 3 and all 268 435 456 of length 4 (thorough: also all 2^35 of length 5) (both variants) and 200 000 seeded longer ones decode to a value whose encoding is the same string (hence distinct strings <-> distinct values); non-trivial = multi-byte".into(),
        assumptions: vec![],
    };
    (meta, out)
}

// ------------------------------------------------------------------ C20

/// Exact Kraft sums: the sum of 2^-len is kept as an integer numerator over 2^P.
struct Kraft {
    p: usize,
    w: Vec<u64>, // little-endian limbs of the numerator, P+1 bits are enough up to a sum of 1, one spare limb
}
impl Kraft {
    fn new(p: usize) -> Self {
        Kraft { p, w: vec![0; p / 64 + 3] }
    }
    /// add 2^-l; returns false if l > P (term below the resolution)
    fn add(&mut self, l: usize) -> bool {
        if l > self.p {
            return false;
        }
        let bit = self.p - l;
        let mut wi = bit / 64;
        let mut carry = 1u64 << (bit % 64);
        while carry != 0 {
            let (s, c) = self.w[wi].overflowing_add(carry);
            self.w[wi] = s;
            carry = c as u64;
            wi += 1;
        }
        true
    }
    /// numerator > 2^P ?
    fn exceeds_one(&self) -> bool {
        let top = self.p / 64;
        let tb = self.p % 64;
        for i in (top + 1..self.w.len()).rev() {
            if self.w[i] != 0 {
                return true;
            }
        }
        let hi = self.w[top] >> tb;
        if hi > 1 {
            return true;
        }
        if hi == 1 {
            // exactly 2^P only if everything below is zero
            if self.w[top] & ((1u64 << tb) - 1) != 0 {
                return true;
            }
            return self.w[..top].iter().any(|&x| x != 0);
        }
        false
    }
}

fn len_codes(seed: u64) -> Vec<Code> {
    let mut v = vec![Code::Unary, Code::Gamma, Code::Delta, Code::Omega, Code::VByteBe];
    for k in (1..=16).chain([31, 63]) {
        v.push(Code::Zeta(k));
    }
    for k in (0..=16).chain([31, 63]) {
        v.push(Code::Pi(k));
        v.push(Code::Rice(k));
        v.push(Code::ExpGolomb(k));
    }
    let mut bs: Vec<u64> = (1..=64).collect();
    bs.extend([100, 1000, (1 << 20) + 1, 1 << 32, (1 << 40) + 7]);
    let mut r = crate::util::Rng::new(seed ^ 0x60);
    bs.push(r.next() >> 20);
    for b in bs {
        v.push(Code::Golomb(b));
    }
    v
}

/// drive FindChangePoints over `f` with a call budget; returns the items or why it failed
fn change_points(f: &(dyn Fn(u64) -> usize + Sync), budget: u64, max_items: usize) -> Result<Vec<(u64, usize)>, String> {
    let calls = std::sync::atomic::AtomicU64::new(0);
    let g = |x: u64| -> usize {
        if calls.fetch_add(1, std::sync::atomic::Ordering::Relaxed) > budget {
            std::panic::panic_any(crate::util::Budget);
        }
        f(x)
    };
    let r = std::panic::catch_unwind(std::panic::AssertUnwindSafe(|| {
        let mut items = vec![];
        for it in FindChangePoints::new(g) {
            items.push(it);
            if items.len() > max_items {
                break;
            }
        }
        items
    }));
    r.map_err(|p| {
        let m = crate::util::panic_msg(&p);
        if m.contains("budget") {
            format!("iteration does not end: more than {} function evaluations", budget)
        } else {
            format!("panic: {}", m)
        }
    })
}

/// oracle for a change-point sequence of a monotone function whose true change points
/// (below `known_upto`) are `truth`
fn judge_points(items: &[(u64, usize)], f: &dyn Fn(u64) -> usize, truth: Option<&[u64]>) -> Result<(), String> {
    if items.is_empty() || items[0] != (0, f(0)) {
        return Err(format!("first item is {:?}, expected (0, {})", items.first(), f(0)));
    }
    for w in items.windows(2) {
        if w[1].0 <= w[0].0 {
            return Err(format!("items not strictly increasing: {:?} then {:?}", w[0], w[1]));
        }
    }
    for &(x, l) in &items[1..] {
        if f(x) != l {
            return Err(format!("item ({}, {}) but f({}) = {}", x, l, x, f(x)));
        }
        if f(x - 1) == l {
            return Err(format!("item ({}, {}) is not a change point: f({}) has the same value", x, l, x - 1));
        }
    }
    if let Some(t) = truth {
        let got: std::collections::BTreeSet<u64> = items.iter().map(|x| x.0).collect();
        for &c in t {
            if c <= (1u64 << 63) && c > 0 && !got.contains(&c) {
                return Err(format!("change point {} (<= 2^63) was missed; items: {:?}", c, items));
            }
        }
    }
    Ok(())
}

pub fn step_grid() -> Vec<u64> {
    let mut g: Vec<u64> = vec![1, 2, 3, 5, 6, 7, 8, 9, 100, 127, 128, 129, 1000, 65535, 65536, 65537];
    for i in [20u32, 31, 32, 33, 47, 62] {
        g.push((1u64 << i) - 1);
        g.push(1u64 << i);
        g.push((1u64 << i) + 1);
    }
    g.extend([(1u64 << 63) - 1, 1u64 << 63, (1u64 << 63) + 1, (1u64 << 63) + (1u64 << 62), u64::MAX - 1]);
    g.sort();
    g.dedup();
    g
}

pub fn c20(ctx: &Ctx) -> (CheckMeta, Outcome) {
    let mut tasks: Vec<Task> = vec![];
    let seed = ctx.seed;
    let dense: u64 = if ctx.thorough { 1 << 21 } else { 1 << 20 };
    // (1) monotone + Kraft
    for code in len_codes(seed) {
        tasks.push(Box::new(move || {
            let mut out = Outcome::new();
            out.cov.configs.insert(format!("len/{}", code.name()));
            let len = |x: u64| crate::disp::direct_len(code, x);
            let maxv = code.max_value();
            // dense prefix: monotone and Kraft
            let n = dense.min(maxv);
            let mut kraft = Kraft::new((1 << 21) + 64);
            let mut prev = 0usize;
            let mut all_in = true;
            for x in 0..n {
                let l = len(x);
                out.cov.evaluations += 1;
                if x > 0 && l < prev {
                    out.violations.push(v("C20", "len-monotone", code.name(), "len", "order", format!("len({}) = {} < len({}) = {}", x, l, x - 1, prev), json!({"kind": "len", "code": code, "v": x})));
                    break;
                }
                if x > 0 && l != prev {
                    out.cov.nontrivial += 1;
                }
                prev = l;
                all_in &= kraft.add(l);
                if (x & 0xFFF) == 0xFFF && kraft.exceeds_one() {
                    out.violations.push(v("C20", "kraft", code.name(), "len", "kraft", format!("the lengths of the first {} values violate Kraft's inequality", x + 1), json!({"kind": "none"})));
                    break;
                }
            }
            if kraft.exceeds_one() {
                out.violations.push(v("C20", "kraft", code.name(), "len", "kraft", format!("the lengths of the first {} values violate Kraft's inequality", n), json!({"kind": "none"})));
            }
            if !all_in {
                out.cov.notes.push(format!("{}: some lengths exceed the 2^21-bit resolution of the Kraft accumulator (their terms are ignored)", code.name()));
            }
            // windows around powers of two
            for i in 1..64u32 {
                let c = 1u64 << i;
                let lo = c.saturating_sub(1 << 10);
                let hi = c.saturating_add(1 << 10).min(maxv);
                let mut p = len(lo);
                for x in lo + 1..=hi {
                    let l = len(x);
                    out.cov.evaluations += 1;
                    if l < p {
                        out.violations.push(v("C20", "len-monotone", code.name(), "len", "order", format!("len({}) = {} < len({}) = {}", x, l, x - 1, p), json!({"kind": "len", "code": code, "v": x})));
                        break;
                    }
                    p = l;
                }
            }
            if code == Code::Zeta(4) {
                out.cov.sample(json!({"code": code, "len(0..8)": (0..8).map(|x| len(x)).collect::<Vec<_>>()}));
            }
            // (2) the iterator on this library length function
            let budget = 200_000;
            match change_points(&len, budget, 300) {
                Ok(items) => {
                    out.cov.add_extra("change_point_sequences", 1);
                    // truth for the dense prefix
                    let mut truth = vec![];
                    let mut pl = len(0);
                    for x in 1..n.min(1 << 16) {
                        let l = len(x);
                        if l != pl {
                            truth.push(x);
                        }
                        pl = l;
                    }
                    let truth: Vec<u64> = if items.len() > 300 { truth.into_iter().filter(|t| *t <= items.last().unwrap().0).collect() } else { truth };
                    if let Err(d) = judge_points(&items, &len, Some(&truth)) {
                        out.violations.push(v("C20", "find-change", format!("len/{}", code.name()), "next", "value", d, json!({"kind": "none"})));
                    }
                }
                Err(d) => {
                    let sym = if d.starts_with("panic") { "panic" } else { "hang" };
                    out.violations.push(v("C20", "find-change", format!("len/{}", code.name()), "next", sym, d, json!({"kind": "none"})));
                }
            }
            // (3) implied distribution set-up terminates and is consistent
            let r = std::panic::catch_unwind(|| {
                let calls = std::sync::atomic::AtomicU64::new(0);
                get_implied_distribution(|x| {
                    if calls.fetch_add(1, std::sync::atomic::Ordering::Relaxed) > 2_000_000 {
                        std::panic::panic_any(crate::util::Budget);
                    }
                    crate::disp::direct_len(code, x)
                })
            });
            match r {
                Ok((pts, probs)) => {
                    let mut ok = probs.len() + 1 == pts.len() || pts.is_empty();
                    for (i, pr) in probs.iter().enumerate() {
                        let want = 2.0_f64.powi(-(pts[i].1 as i32)) * (pts[i + 1].0 - pts[i].0) as f64;
                        if (pr - want).abs() > want * 1e-12 {
                            ok = false;
                        }
                    }
                    if !ok {
                        out.violations.push(v("C20", "implied", code.name(), "get_implied_distribution", "value", "probabilities do not equal 2^-len x run length".into(), json!({"kind": "none"})));
                    }
                }
                Err(p) => {
                    let m = crate::util::panic_msg(&p);
                    let sym = if m.contains("budget") { "hang" } else { "panic" };
                    out.violations.push(v("C20", "implied", code.name(), "get_implied_distribution", sym, format!("setting up the implied distribution of {} fails: {}", code.name(), m), json!({"kind": "none"})));
                }
            }
            // (3b) the sampler itself can be set up and yields values of the right bracket
            let r = std::panic::catch_unwind(|| {
                use rand::SeedableRng;
                let mut rng = rand::rngs::SmallRng::seed_from_u64(seed ^ 0x5A);
                let calls = std::sync::atomic::AtomicU64::new(0);
                let it = sample_implied_distribution(
                    |x| {
                        if calls.fetch_add(1, std::sync::atomic::Ordering::Relaxed) > 2_000_000 {
                            std::panic::panic_any(crate::util::Budget);
                        }
                        crate::disp::direct_len(code, x)
                    },
                    &mut rng,
                );
                it.take(16).collect::<Vec<u64>>()
            });
            match r {
                Ok(vals) => {
                    if vals.len() != 16 || vals.iter().any(|&x| crate::disp::direct_len(code, x) > 128) {
                        out.violations.push(v("C20", "implied", code.name(), "sample_implied_distribution", "value", format!("sampler for {} yields {:?}", code.name(), vals), json!({"kind": "none"})));
                    }
                }
                Err(p) => {
                    let m = crate::util::panic_msg(&p);
                    let sym = if m.contains("budget") { "hang" } else { "panic" };
                    out.violations.push(v("C20", "implied", code.name(), "sample_implied_distribution", sym, format!("sampling from the implied distribution of {} cannot be set up: {}", code.name(), m), json!({"kind": "none"})));
                }
            }
            out
        }));
    }
    // (4) synthetic monotone step functions with <= 3 steps on the grid (includes constants)
    let grid = step_grid();
    let g = grid.len();
    let max_steps: usize = if ctx.thorough { 6 } else { 5 };
    for a in 0..=g {
        let grid = grid.clone();
        tasks.push(Box::new(move || {
            let mut out = Outcome::new();
            out.cov.configs.insert("synthetic-steps".into());
            // steps: subsets {a} ∪ {b} ∪ {c} with a < b < c indexes; index g = "no step"
            let mut run = |steps: Vec<u64>, out: &mut Outcome| {
              // three value maps: small values; the same with the highest level = usize::MAX (a legal
              // value of a non-decreasing function u64 -> usize); levels 2^32 apart (equal in their low
              // 8, 16 and 32 bits: the comparison of successive values must use the whole usize)
              for vmap in 0..3u8 {
                let top_max = vmap == 1;
                if vmap != 0 && steps.is_empty() {
                    continue;
                }
                let st = steps.clone();
                let nsteps = steps.len();
                let f = move |x: u64| -> usize {
                    let lvl = st.iter().filter(|&&p| x >= p).count();
                    if vmap == 2 {
                        7 + (lvl << 32)
                    } else if top_max && lvl == nsteps {
                        usize::MAX
                    } else {
                        3 + lvl * 2
                    }
                };
                let what = match vmap {
                    1 => " (top value usize::MAX)",
                    2 => " (levels 2^32 apart)",
                    _ => "",
                };
                out.cov.evaluations += 1;
                if !steps.is_empty() {
                    out.cov.nontrivial += 1;
                }
                match change_points(&f, 100_000, 16) {
                    Ok(items) => {
                        if let Err(d) = judge_points(&items, &f, Some(&steps)) {
                            if out.violations.len() < 10 {
                                out.violations.push(v("C20", "find-change", "synthetic".into(), "next", "value", format!("steps at {:?}{}: {}", steps, what, d), json!({"kind": "steps", "steps": steps, "value_map": vmap})));
                            }
                        }
                    }
                    Err(d) => {
                        let sym = if d.starts_with("panic") { "panic" } else { "hang" };
                        if out.violations.len() < 10 {
                            out.violations.push(v("C20", "find-change", "synthetic".into(), "next", sym, format!("steps at {:?}{}: {}", steps, what, d), json!({"kind": "steps", "steps": steps, "value_map": vmap})));
                        }
                    }
                }
              }
            };
            if a == g {
                run(vec![], &mut out); // the constant function
                out.cov.sample(json!({"steps": [], "function": "constant 3"}));
                return out;
            }
            // every subset of the grid whose smallest element is grid[a], up to max_steps elements
            fn rec(grid: &[u64], start: usize, cur: &mut Vec<u64>, max_steps: usize, run: &mut dyn FnMut(Vec<u64>)) {
                run(cur.clone());
                if cur.len() == max_steps {
                    return;
                }
                for i in start..grid.len() {
                    cur.push(grid[i]);
                    rec(grid, i + 1, cur, max_steps, run);
                    cur.pop();
                }
            }
            let mut cur = vec![grid[a]];
            let mut runner = |st: Vec<u64>| run(st, &mut out);
            rec(&grid, a + 1, &mut cur, max_steps, &mut runner);
            if a == 3 {
                out.cov.sample(json!({"steps": [grid[a], grid[a + 5], grid[g - 3]]}));
            }
            out
        }));
    }
    // (5) runs of equally spaced change points followed by a different gap (what Rice/Golomb lengths
    // look like locally, but with the regularity BROKEN): m steps in arithmetic progression with gap g
    // from a start a, then one more step at distance d
    {
        let gaps: Vec<u64> = (1..=24u64).chain([31, 32, 33, 100, 127, 128, 129, 1000, 3_000_000, (1 << 20) + 3, (1 << 33) + 5]).collect();
        for (gi, &g) in gaps.iter().enumerate() {
            let thorough = ctx.thorough;
            tasks.push(Box::new(move || {
                let mut out = Outcome::new();
                out.cov.configs.insert("synthetic-progressions".into());
                let _ = gi;
                let ds: Vec<u64> = if g <= 40 { (1..=2 * g + 2).collect() } else { vec![1, 2, g / 2, g - 1, g, g + 1, g + g / 2, 2 * g - 1, 2 * g, 2 * g + 1, (g + 1).next_power_of_two() - 1, (g + 1).next_power_of_two(), (g + 1).next_power_of_two() + 1] };
                for m in 1..=(if thorough { 20usize } else { 12 }) {
                    for a in [1u64, g, 5, 1000] {
                        for &d in &ds {
                            let mut steps: Vec<u64> = (0..m as u64).map(|i| a + i * g).collect();
                            steps.push(a + (m as u64 - 1) * g + d);
                            // and a second progression with another gap after the break
                            let mut variants = vec![steps.clone()];
                            let mut two = steps.clone();
                            let last = *two.last().unwrap();
                            for i in 1..=3u64 {
                                two.push(last + i * (g + 1));
                            }
                            variants.push(two);
                            for st in variants {
                                let stc = st.clone();
                                let f = move |x: u64| -> usize { 3 + stc.iter().filter(|&&p| x >= p).count() };
                                out.cov.evaluations += 1;
                                out.cov.nontrivial += 1;
                                let r = change_points(&f, 100_000, st.len() + 8);
                                let bad = match r {
                                    Ok(items) => judge_points(&items, &f, Some(&st)).err().map(|d| ("value", d)),
                                    Err(d) => Some((if d.starts_with("panic") { "panic" } else { "hang" }, d)),
                                };
                                if let Some((sym, d)) = bad {
                                    if out.violations.len() < 10 {
                                        out.violations.push(v("C20", "find-change", "synthetic-progressions".into(), "next", sym, format!("steps at {:?}: {}", st, d), json!({"kind": "steps", "steps": st, "value_map": 0})));
                                    }
                                }
                            }
                        }
                    }
                }
                out
            }));
        }
    }
    let out = run_all(tasks, threads());
    let meta = CheckMeta {
        property: "C20".into(),
        level: "exploration".into(),
        rule: "(1) every library length function (unary, gamma, delta, omega, vbyte, zeta/pi/rice/exp-golomb with parameters 0..=16, 31, 63, golomb 1..=64 and six larger moduli): len(v) <= len(v+1) for all v below 2^20 (thorough 2^21) and within 2^10 of every power of two; Kraft sum of the dense prefix in exact arithmetic (numerator over 2^(2^21)) must not exceed 1; (2) FindChangePoints on each of those functions, driven through a closure with a 200 000-call budget: first item (0, f(0)), strictly increasing, every item a true change point with the new value, none of the true change points of the dense prefix missed, iteration ends; (3) get_implied_distribution terminates for each code and its probabilities are 2^-len x run length, and sample_implied_distribution can be set up (seeded rng) and yields 16 values whose codewords are at most 128 bits; (4) ALL synthetic non-decreasing step functions with at most 5 (thorough: 6) steps at positions from a 39-point grid (1..9, around 2^7, 2^16, 2^20, 2^31..2^33, 2^47, 2^62, 2^63 +-1, beyond 2^63, 2^64-2), including the constant function, each with small values, with usize::MAX as its highest value and with levels 2^32 apart: same oracle, every step <= 2^63 must be reported; (5) step functions whose first m (1..=12, thorough 20) steps are equally spaced (35 gaps from 1 to 2^33+5, four starting points) followed by one step at every distance 1..=2g+2 (for large gaps: around g/2, g, 2g and the next power of two), and the same followed by a second progression; non-trivial = value at which a length steps / function with at least one step".into(),
        assumptions: vec!["Kraft terms below 2^-(2^21) are ignored (only possible for unary-like codes beyond the dense prefix)".into()],
    };
    (meta, out)
}
