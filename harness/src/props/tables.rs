//! C05: table-driven coding is observationally identical to bit-by-bit coding.

use crate::images::{code_stream, TABLED};
use crate::model::{decode, Bits, Code, Dec, End};
use crate::pool::{run_all, threads, Task};
use crate::props::codes::{lib_lens, run_streams_pub};
use crate::rd::*;
use crate::rdsys::*;
use crate::report::{CheckMeta, Outcome, Violation};
use crate::streams::{read_variants, Item, StreamCfg};
use crate::util::Rng;
use crate::wr::WBITS;
use crate::Ctx;
use dsi_bitstream::prelude::{delta_tables, gamma_tables, zeta_tables};
use serde_json::json;

fn tables() -> [(Code, usize, u64); 3] {
    [
        (Code::Gamma, gamma_tables::READ_BITS, gamma_tables::WRITE_MAX),
        (Code::Delta, delta_tables::READ_BITS, delta_tables::WRITE_MAX),
        (Code::Zeta(3), zeta_tables::READ_BITS, zeta_tables::WRITE_MAX),
    ]
}

fn continuation(c: usize, seed: u64, idx: u64) -> Bits {
    let mut b = Bits::new();
    let mut r = Rng::new(seed ^ idx.wrapping_mul(0x9E37) ^ c as u64);
    match c {
        0 => {
            for _ in 0..3 {
                b.push_bit(0);
            }
            b.push_bit(1);
            for _ in 0..92 {
                b.push_bit((r.next() & 1) as u8);
            }
        }
        1 => {
            for _ in 0..96 {
                b.push_bit(1);
            }
        }
        2 => {
            for _ in 0..96 {
                b.push_bit((r.next() & 1) as u8);
            }
        }
        3 => {
            for _ in 0..20 {
                b.push_bit(0);
            }
            b.push_bit(1);
            for _ in 0..75 {
                b.push_bit(1);
            }
        }
        _ => {
            // further seeded continuations with a short zero prefix of varying length
            for _ in 0..(c - 3) {
                b.push_bit(0);
            }
            b.push_bit(1);
            while b.len() < 96 {
                b.push_bit((r.next() & 1) as u8);
            }
        }
    }
    b
}

pub const OFFPAT: u64 = 0xD1B5_4A32_D192_ED03;

fn sweep_doc(e: End, kind: &str, backend: &str, image: &[u8], len_bits: usize, way: u8, o: usize, ops: &[ROp], zx: bool, tables_ok: [bool; 3]) -> serde_json::Value {
    // expressed as a reader replay: reach offset o, then the variant under test
    let mut pre: Vec<ROp> = vec![];
    if way == 1 {
        let pk = match kind {
            "buf8" => 8,
            "buf16" => 16,
            "unbuf" => 32,
            "buf32" => 32,
            _ => 64,
        };
        pre.push(ROp::Peek(pk));
    }
    pre.push(ROp::Skip(o as u16));
    pre.extend_from_slice(ops);
    json!({"kind": "reader", "e": e, "rkind": kind, "backend": backend, "wrapper": "", "image": crate::util::hex(image), "len_bits": len_bits, "zx": zx, "limit": len_bits + 256, "tables_ok": tables_ok, "ops": pre})
}

/// Part 1: complete sweep of decode-table indices.
fn sweep(ctx: &Ctx) -> Outcome {
    let mut tasks: Vec<Task> = vec![];
    let nconts = if ctx.thorough { 8 } else { 4 };
    for (code, read_bits, _) in tables() {
        for e in End::BOTH {
            for kind in KINDS {
                let diag = ctx.diag[kind];
                let tix = match code {
                    Code::Gamma => 0,
                    Code::Delta => 1,
                    _ => 2,
                };
                let seed = ctx.seed;
                let thorough = ctx.thorough;
                // split the index space in 4 for load balance
                for part in 0..4u64 {
                    tasks.push(Box::new(move || {
                        let mut out = Outcome::new();
                        let (w, pk): (usize, u8) = match kind {
                            "buf8" => (8, 8),
                            "buf16" => (16, 16),
                            "buf32" => (32, 32),
                            "buf64" => (64, 64),
                            _ => (64, 32),
                        };
                        let cfg = format!("{}/{}/{}", e.name(), kind, code.name());
                        out.cov.configs.insert(cfg.clone());
                        if !diag[tix] {
                            out.cov.notes.push(format!("{} readers print the look-ahead diagnostic for the {} table: table operations not issued there (premise of C05)", kind, code.name()));
                            return out;
                        }
                        let variants: Vec<ROp> = read_variants(code, false).into_iter().filter(|op| {
                            let t = op.tables();
                            (0..3).all(|i| !t[i] || diag[i])
                        }).collect();
                        let _ = thorough;
                        let max_o = 2 * w + 1;
                        let n = 1u64 << read_bits;
                        crate::watchdog::enter(|| format!("{{\"sweep\":\"{}\"}}", cfg));
                        for idx in (part * n / 4)..((part + 1) * n / 4) {
                            for c in 0..nconts {
                                let mut b = Bits::new();
                                b.push_field(idx as u128, read_bits, e);
                                b.extend(&continuation(c, seed, idx));
                                let (val, len) = match decode(&b, 0, code, e, false) {
                                    Dec::Ok(v, l) => (v, l),
                                    _ => continue,
                                };
                                for o in 0..=max_o {
                                    // offset bits
                                    let mut pre = Bits::new();
                                    let mut left = o;
                                    while left > 0 {
                                        let k = left.min(64);
                                        pre.push_field((if k == 64 { OFFPAT } else { OFFPAT & ((1u64 << k) - 1) }) as u128, k, e);
                                        left -= k;
                                    }
                                    // (zero-extended, long) and (strict, codeword ends in the last word)
                                    for strict_tail in [false, true] {
                                        let mut img = pre.clone();
                                        if strict_tail {
                                            img.extend(&b.slice(0, len));
                                            img.pad_to(w.max(8));
                                        } else {
                                            img.extend(&b);
                                            img.pad_to(128);
                                        }
                                        let len_bits = img.len();
                                        let bytes = img.to_bytes(e, 0);
                                        let backend = if strict_tail { "memstrict" } else { "memzx" };
                                        let base = make_reader(e, kind, backend, "", &bytes);
                                        for way in 0..2u8 {
                                            let mut r0 = base.fork();
                                            if way == 1 {
                                                if o + (pk as usize) > len_bits {
                                                    continue;
                                                }
                                                r0.apply(&ROp::Peek(pk));
                                            }
                                            if r0.apply(&ROp::Skip(o as u16)) != RObs::Unit {
                                                continue;
                                            }
                                            for op in &variants {
                                                let mut r = r0.fork();
                                                let obs = r.apply(op);
                                                out.cov.transitions += 1;
                                                let pos = r.bit_pos();
                                                let mut fail: Option<(&str, String)> = None;
                                                match &obs {
                                                    RObs::Val(x) if *x == val => match pos {
                                                        Some(Ok(p)) if p as usize == o + len => {}
                                                        Some(other) => fail = Some(("position", format!("{:?}: position {:?}, codeword ends at {}", op, other, o + len))),
                                                        None => {}
                                                    },
                                                    RObs::Val(x) => fail = Some(("value", format!("{:?} returned {} for the codeword of {} ({} bits)", op, x, val, len))),
                                                    RObs::Panic(m) => fail = Some(("panic", format!("{:?} panicked: {}", op, m))),
                                                    other => fail = Some(("error", format!("{:?} -> {:?} for a codeword lying entirely within the data", op, other))),
                                                }
                                                if fail.is_none() {
                                                    // the reader must continue correctly: next 5 bits (if any)
                                                    let rest = len_bits - (o + len);
                                                    if rest >= 5 || !strict_tail {
                                                        let want = img.field(o + len, 5, e, true).unwrap() as u64;
                                                        let nx = r.apply(&ROp::ReadBits(5));
                                                        if nx != RObs::Val(want) {
                                                            fail = Some(("value", format!("after {:?} the next 5 bits read as {:?}, expected {}", op, nx, want)));
                                                        }
                                                    }
                                                }
                                                if let Some((sym, det)) = fail {
                                                    if out.violations.len() < 50 {
                                                        out.violations.push(Violation {
                                                            property: "C05".into(),
                                                            system: "table-sweep".into(),
                                                            config: format!("{}/{}/{}", e.name(), kind, backend),
                                                            op_class: op.class().into(),
                                                            symptom: sym.into(),
                                                            detail: format!("table {} index {:#x} cont {} offset {} way {}: {}", code.name(), idx, c, o, way, det),
                                                            replay: sweep_doc(e, kind, backend, &bytes, len_bits, way, o, &[op.clone()], !strict_tail, diag),
                                                        });
                                                    }
                                                }
                                            }
                                        }
                                    }
                                }
                                out.cov.evaluations += 1;
                                if len > read_bits || len == read_bits {
                                    out.cov.nontrivial += 1;
                                }
                            }
                        }
                        crate::watchdog::leave();
                        out.cov.add_extra("decode_table_indices_swept", (n / 4) as u64);
                        if part == 0 {
                            out.cov.sample(json!({"table": code.name(), "e": e, "reader": kind, "index_bits": read_bits, "variants": variants, "offsets": format!("0..={}", max_o)}));
                        }
                        out
                    }));
                }
            }
        }
    }
    run_all(tasks, threads())
}

/// Part 2: every encode / length table entry and the values just beyond.
fn encode_side(ctx: &Ctx) -> Outcome {
    let mut items: Vec<Item> = vec![];
    for (code, _, wmax) in tables() {
        let nv = crate::props::codes::n_direct_write_variants(code) as u8;
        for v in 0..=(wmax + 70) {
            for wvar in 0..nv {
                items.push(Item { code, v, wvar, follow: 0xFFFF });
            }
        }
    }
    let mut cfgs = vec![];
    for e in End::BOTH {
        for w in WBITS {
            let offs: Vec<usize> = if ctx.thorough { (0..=w.min(64)).collect() } else { vec![0, 1, w - 1] };
            for o in offs {
                cfgs.push(StreamCfg { e, wbits: w, offset: o, readers: vec![("buf32", "memzx"), ("buf64", "memstrict"), ("unbuf", "memzx")], with_disp: false, all_read_variants: true });
            }
        }
    }
    let mut out = run_streams_pub(cfgs, std::sync::Arc::new(items), ctx, &["C03", "C04", "C05", "C06"]);
    for v in out.violations.iter_mut() {
        v.property = "C05".into();
    }
    // LEN tables vs formula
    for (code, _, wmax) in tables().into_iter().filter(|_| crate::pool::is_primary()) {
        for v in 0..=(wmax + 5000) {
            let ls = lib_lens(code, v);
            out.cov.evaluations += 1;
            if ls.iter().any(|(_, l)| *l != ls[0].1) {
                out.violations.push(Violation {
                    property: "C05".into(),
                    system: "len-table".into(),
                    config: code.name(),
                    op_class: format!("len:{}", code.family()),
                    symptom: "length".into(),
                    detail: format!("{:?} value {}: length functions disagree: {:?}", code, v, ls),
                    replay: json!({"kind": "len", "code": code, "v": v}),
                });
            }
        }
    }
    out
}

/// Part 3: reader state space on images of valid codewords with the table operations in the alphabet.
fn state_space(ctx: &Ctx) -> Outcome {
    let mut tasks: Vec<Task> = vec![];
    let nbits = if ctx.thorough { 640 } else { 256 };
    for e in End::BOTH {
        for kind in KINDS {
            for backend in ["memzx", "memstrict", "vec"] {
                let diag = ctx.diag[kind];
                let seed = ctx.seed;
                let thorough = ctx.thorough;
                tasks.push(Box::new(move || {
                    let mut out = Outcome::new();
                    let (w, pk): (usize, u8) = match kind {
                        "buf8" => (8, 8),
                        "buf16" => (16, 16),
                        "buf32" => (32, 32),
                        "buf64" => (64, 64),
                        _ => (64, 32),
                    };
                    let mut alphabet: Vec<ROp> = vec![];
                    for n in [0u8, 1, 2, 3, 5, 7, 8, 9, 11, 12, 13, 16, 17, 31, 32, 33, 63, 64] {
                        alphabet.push(ROp::ReadBits(n));
                    }
                    for n in [1u8, 8, 9, 11, 12, 16, 32, 64] {
                        if n <= pk {
                            alphabet.push(ROp::Peek(n));
                        }
                    }
                    alphabet.push(ROp::Peek(pk));
                    for n in [1u16, w as u16 - 1, w as u16, w as u16 + 1] {
                        alphabet.push(ROp::Skip(n));
                    }
                    alphabet.push(ROp::Unary);
                    for c in TABLED {
                        alphabet.extend(read_variants(c, false));
                    }
                    alphabet.push(ROp::Omega);
                    alphabet.push(ROp::ExpGolomb(2));
                    let imgs = if thorough { 3 } else { 1 };
                    for j in 0..imgs {
                        let mut rng = Rng::new(seed ^ 0x7AB1E ^ j);
                        let bits = code_stream(e, nbits, &mut rng, &TABLED);
                        let bytes = bits.to_bytes(e, 128);
                        let model = RdModel { bits: Bits::from_bytes(&bytes, e), e, zx: backend == "memzx", limit: nbits + 64, tables_ok: diag };
                        let rd = make_reader(e, kind, backend, "", &bytes);
                        let run = RdRun { property: "C05", model: &model, image: &bytes, alphabet: &alphabet, max_states: 40_000, check_counter: false, max_depth: 0 };
                        out.merge(explore(&run, rd));
                    }
                    out
                }));
            }
        }
    }
    run_all(tasks, threads())
}

pub fn c05(ctx: &Ctx) -> (CheckMeta, Outcome) {
    let mut out = sweep(ctx);
    out.merge(encode_side(ctx));
    out.merge(state_space(ctx));
    out.merge(helper_functions(ctx));
    out.cov.extra.insert("premise_tables_usable_by_reader_kind".into(), json!(ctx.diag));
    let meta = CheckMeta {
        property: "C05".into(),
        level: "model_checking".into(),
        rule: "(1) complete sweep of every decode-table index (2^9 gamma, 2^11 delta, 2^12 zeta3, BE and LE) followed by 4 (thorough 8) continuations, at every offset 0..=2W+1, reached plainly and after a full-width peek, on a zero-extended stream and on a strict stream whose last word holds the end of the codeword; every read variant (default method, every table-flag combination, table-free) on clones must return the reference value, end at the reference position and leave a reader that reads the next bits correctly; (2) every encode/length table entry and 70 values beyond WRITE_MAX through every write variant: same bits, same lengths, read back by 3 readers; LEN tables vs formula; (4) the public helper functions of the three table modules called directly (read_table_be/le, len_table_be/le, write_table_be/le) on every index / every value up to WRITE_MAX+3: a hit must be the reference (value, length) and advance the reader by exactly that length, read_table and len_table must hit on the same indices, a miss must leave the reader where it was; (3) BFS to the fixpoint of the reader state space on images of valid gamma/delta/zeta3 codewords with all table operations in the alphabet; table operations are only issued on reader kinds whose construction printed no diagnostic for that table (probed in a child process); evaluations = (index, continuation) pairs; non-trivial = codeword at least as long as the index width".into(),
        assumptions: vec!["the library's construction-time diagnostic decides which reader may use which table".into()],
    };
    (meta, out)
}


/// Part 4: the public helper functions of the table modules, called directly.
pub fn helper_functions(ctx: &Ctx) -> Outcome {
    use dsi_bitstream::prelude::*;
    let mut tasks: Vec<Task> = vec![];
    for (code, read_bits, write_max) in tables() {
        for e in End::BOTH {
            let seed = ctx.seed;
            tasks.push(Box::new(move || {
                let mut out = Outcome::new();
                let cfg = format!("{}/helpers/{}", e.name(), code.name());
                out.cov.configs.insert(cfg.clone());
                let mut report = |out: &mut Outcome, op: &str, sym: &str, d: String| {
                    if out.violations.len() < 12 {
                        out.violations.push(Violation { property: "C05".into(), system: "table-helpers".into(), config: cfg.clone(), op_class: op.into(), symptom: sym.into(), detail: d, replay: json!({"kind": "none"}) });
                    }
                };
                macro_rules! go {
                    ($E:ty, $read:path, $len:path, $write:path) => {{
                        for idx in 0..(1u64 << read_bits) {
                            for c in 0..2 {
                                let mut b = Bits::new();
                                b.push_field(idx as u128, read_bits, e);
                                b.extend(&continuation(c, seed, idx));
                                while b.len() % 64 != 0 || b.len() < 128 {
                                    b.push_bit(1);
                                }
                                let reference = match decode(&b, 0, code, e, false) {
                                    Dec::Ok(v, l) => Some((v, l)),
                                    _ => None,
                                };
                                let bytes = b.to_bytes(e, 64);
                                let words = crate::rd::words_from_bytes::<u64>(&bytes);
                                let base = BufBitReader::<$E, _>::new(MemWordReader::<u64, _, false>::new_strict(words));
                                let mut r1 = base.clone();
                                let got_r = $read(&mut r1);
                                let p1 = BitSeek::bit_pos(&mut r1).unwrap() as usize;
                                let mut r2 = base.clone();
                                let got_l = $len(&mut r2);
                                let p2 = BitSeek::bit_pos(&mut r2).unwrap() as usize;
                                out.cov.evaluations += 2;
                                out.cov.transitions += 2;
                                match got_r {
                                    Some((v, l)) => {
                                        out.cov.nontrivial += 1;
                                        if reference != Some((v, l)) || p1 != l {
                                            report(&mut out, "read_table", "value", format!("index {:#b}: read_table returned ({}, {}) and left the reader at {}, the reference codeword is {:?}", idx, v, l, p1, reference));
                                        }
                                    }
                                    None => {
                                        if p1 != 0 {
                                            report(&mut out, "read_table", "position", format!("index {:#b}: a table miss moved the reader to {}", idx, p1));
                                        }
                                        if let Some((_, l)) = reference {
                                            if l <= read_bits {
                                                report(&mut out, "read_table", "value", format!("index {:#b}: the codeword has {} bits (within the index width) but the table misses", idx, l));
                                            }
                                        }
                                    }
                                }
                                match (got_l, got_r) {
                                    (Some(l), Some((_, lr))) => {
                                        if l != lr || p2 != l {
                                            report(&mut out, "len_table", "length", format!("index {:#b}: len_table returned {} and left the reader at {}, read_table says {}", idx, l, p2, lr));
                                        }
                                    }
                                    (None, None) => {
                                        if p2 != 0 {
                                            report(&mut out, "len_table", "position", format!("index {:#b}: a table miss moved the reader to {}", idx, p2));
                                        }
                                    }
                                    (a, b2) => report(&mut out, "len_table", "length", format!("index {:#b}: len_table returned {:?} where read_table returned {:?}", idx, a, b2)),
                                }
                            }
                        }
                        for v in 0..=(write_max + 3) {
                            let rec = crate::wr::Rec::<u64>::new();
                            let log = rec.log.clone();
                            let mut w = BufBitWriter::<$E, _>::new(rec);
                            let r = $write(&mut w, v);
                            let _ = w.write_bits(0b1011001, 7);
                            let _ = BitWrite::<$E>::flush(&mut w);
                            drop(w);
                            let cw = crate::model::encode(code, v, e);
                            out.cov.evaluations += 1;
                            match r {
                                Ok(Some(l)) => {
                                    let mut m = cw.clone();
                                    m.push_field(0b1011001, 7, e);
                                    if l != cw.len() || *log.borrow() != m.to_bytes(e, 64) {
                                        report(&mut out, "write_table", "bytes", format!("write_table({}) returned {} and wrote {}, the reference codeword has {} bits", v, l, crate::util::hex(&log.borrow()), cw.len()));
                                    }
                                }
                                Ok(None) => {
                                    if v <= write_max {
                                        report(&mut out, "write_table", "value", format!("write_table({}) misses although WRITE_MAX is {}", v, write_max));
                                    }
                                }
                                Err(_) => report(&mut out, "write_table", "error", format!("write_table({}) failed", v)),
                            }
                        }
                    }};
                }
                match (code, e) {
                    (Code::Gamma, End::BE) => go!(BE, gamma_tables::read_table_be, gamma_tables::len_table_be, gamma_tables::write_table_be),
                    (Code::Gamma, End::LE) => go!(LE, gamma_tables::read_table_le, gamma_tables::len_table_le, gamma_tables::write_table_le),
                    (Code::Delta, End::BE) => go!(BE, delta_tables::read_table_be, delta_tables::len_table_be, delta_tables::write_table_be),
                    (Code::Delta, End::LE) => go!(LE, delta_tables::read_table_le, delta_tables::len_table_le, delta_tables::write_table_le),
                    (_, End::BE) => go!(BE, zeta_tables::read_table_be, zeta_tables::len_table_be, zeta_tables::write_table_be),
                    (_, End::LE) => go!(LE, zeta_tables::read_table_le, zeta_tables::len_table_le, zeta_tables::write_table_le),
                }
                out
            }));
        }
    }
    run_all(tasks, threads())
}
