//! C10: every dispatch mechanism performs exactly the code it names.
//! Complete over identifiers (all 51 constants, every enumeration variant with
//! parameters 0..=12 and large ones), every dispatcher kind, {write, read, len}, both E.

use crate::disp::*;
use crate::grid::values;
use crate::model::{Code, End};
use crate::pool::{run_all, threads, Task};
use crate::rd::{bytes_from_words, words_from_bytes};
use crate::report::{CheckMeta, Outcome, Violation};
use crate::Ctx;
use dsi_bitstream::prelude::*;
use serde_json::json;

pub struct MemFactory<E: Endianness> {
    data: Vec<u32>,
    _e: std::marker::PhantomData<E>,
}
impl CodesReaderFactory<BE> for MemFactory<BE> {
    type CodesReader<'a> = BufBitReader<BE, MemWordReader<u32, &'a [u32]>>;
    fn new_reader(&self) -> Self::CodesReader<'_> {
        BufBitReader::new(MemWordReader::new(&self.data[..]))
    }
}
impl CodesReaderFactory<LE> for MemFactory<LE> {
    type CodesReader<'a> = BufBitReader<LE, MemWordReader<u32, &'a [u32]>>;
    fn new_reader(&self) -> Self::CodesReader<'_> {
        BufBitReader::new(MemWordReader::new(&self.data[..]))
    }
}

const PRE: u64 = 0b101;
const PRE_BITS: usize = 3;
const POST: u64 = 0b1100_1011;
const POST_BITS: usize = 8;

type W<E> = BufBitWriter<E, MemWordWriterVec<u64, Vec<u64>>>;

/// write "PRE, item, POST" with the given writer function; returns (bytes, returned length)
fn write_with<E: Endianness>(f: &dyn Fn(&mut W<E>) -> Option<Result<usize, String>>) -> Option<Result<(Vec<u8>, usize), String>>
where
    W<E>: CodesWrite<E>,
{
    let mut w: W<E> = BufBitWriter::new(MemWordWriterVec::new(Vec::new()));
    w.write_bits(PRE, PRE_BITS).unwrap();
    let r = std::panic::catch_unwind(std::panic::AssertUnwindSafe(|| f(&mut w)));
    let r = match r {
        Ok(r) => r,
        Err(p) => {
            std::mem::forget(w);
            return Some(Err(format!("panic: {}", crate::util::panic_msg(&p))));
        }
    };
    let n = match r {
        None => return None,
        Some(Err(e)) => return Some(Err(e)),
        Some(Ok(n)) => n,
    };
    w.write_bits(POST, POST_BITS).unwrap();
    let v = w.into_inner().unwrap().into_inner();
    Some(Ok((bytes_from_words::<u64>(&v), n)))
}

macro_rules! impl_check_item {
    ($name:ident, $E:ty) => {
fn $name(e: End, code: Code, v: u64, out: &mut Outcome) {
    type E = $E;
    let mut bad = |kind: &str, op: &str, sym: &str, detail: String| {
        out.violations.push(Violation {
            property: "C10".into(),
            system: format!("dispatch:{}", kind),
            config: e.name().into(),
            op_class: format!("{}:{}", op, code.name()),
            symptom: sym.into(),
            detail: format!("{:?} value {}: {}", code, v, detail),
            replay: json!({"kind": "disp", "e": e, "code": code, "v": v}),
        });
    };
    out.cov.evaluations += 1;
    // ---- direct method
    let direct = write_with::<E>(&|w| Some(direct_write::<E, W<E>>(w, code, v)));
    let (dbytes, dlen) = match direct {
        Some(Ok(x)) => x,
        other => {
            bad("direct", "write", "error", format!("direct write failed: {:?}", other.map(|r| r.err())));
            return;
        }
    };
    // ---- writers
    // the statistics wrapper computes the length of the value under EVERY tracked code, so its
    // domain is the intersection of the codes' domains: 2^64-1 (VByte only) is outside it
    let stats_ok = v != u64::MAX;
    for kind in 0..WKINDS.len() as u8 {
        if !stats_ok && WKINDS[kind as usize].starts_with("Stats") {
            continue;
        }
        let r = write_with::<E>(&|w| disp_write::<E, W<E>>(w, kind, code, v));
        match r {
            None => {}
            Some(Err(msg)) => bad(WKINDS[kind as usize], "write", if msg.starts_with("panic") { "panic" } else { "error" }, msg),
            Some(Ok((b, n))) => {
                out.cov.transitions += 1;
                if n != dlen {
                    bad(WKINDS[kind as usize], "write", "length", format!("dispatcher returned {} but the direct method returned {}", n, dlen));
                } else if b != dbytes {
                    bad(WKINDS[kind as usize], "write", "bytes", format!("dispatcher wrote {} but the direct method wrote {}", crate::util::hex(&b), crate::util::hex(&dbytes)));
                }
            }
        }
    }
    // ---- the enumeration value obtained from the compile-time identifier of the same name
    if let Some(id) = const_id(code) {
        match Codes::from_code_const(id) {
            Err(_) => bad("Codes::from_code_const", "write", "error", format!("identifier {} (the constant named after this code) is not accepted", id)),
            Ok(c2) => {
                let r = write_with::<E>(&|w| Some(DynamicCodeWrite::write(&c2, w, v).map_err(|e| format!("{e}"))));
                match r {
                    Some(Ok((b, n))) => {
                        out.cov.transitions += 1;
                        if n != dlen {
                            bad("Codes::from_code_const", "write", "length", format!("{:?} (from identifier {}) returned {} but the direct method returned {}", c2, id, n, dlen));
                        } else if b != dbytes {
                            bad("Codes::from_code_const", "write", "bytes", format!("{:?} (from identifier {}) wrote {} but the direct method wrote {}", c2, id, crate::util::hex(&b), crate::util::hex(&dbytes)));
                        }
                    }
                    Some(Err(msg)) => bad("Codes::from_code_const", "write", if msg.starts_with("panic") { "panic" } else { "error" }, msg),
                    None => {}
                }
            }
        }
    }
    // ---- lengths
    let dl = direct_len(code, v);
    if dl != dlen {
        bad("direct", "len", "length", format!("len function {} vs written {}", dl, dlen));
    }
    for kind in 0..LKINDS.len() as u8 {
        if let Some(l) = std::panic::catch_unwind(|| disp_len(kind, code, v)).unwrap_or(Some(usize::MAX)) {
            out.cov.transitions += 1;
            if l != dl {
                bad(LKINDS[kind as usize], "len", "length", format!("dispatcher length {} but direct length {}", l, dl));
            }
        }
    }
    // ---- readers, on what the direct method wrote
    let mut padded = dbytes.clone();
    while padded.len() % 4 != 0 {
        padded.push(0);
    }
    let data: Vec<u32> = words_from_bytes::<u32>(&padded);
    let fac = MemFactory::<E> { data: data.clone(), _e: std::marker::PhantomData };
    let read_with = |f: &dyn Fn(&mut BufBitReader<E, MemWordReader<u32, &[u32]>>) -> Option<Result<u64, String>>| -> Option<Result<(u64, u64, u64), String>> {
        let mut r = fac.new_reader();
        let pre = r.read_bits(PRE_BITS).unwrap();
        let x = std::panic::catch_unwind(std::panic::AssertUnwindSafe(|| f(&mut r)));
        let x = match x {
            Ok(x) => x,
            Err(p) => return Some(Err(format!("panic: {}", crate::util::panic_msg(&p)))),
        };
        match x {
            None => None,
            Some(Err(e)) => Some(Err(e)),
            Some(Ok(val)) => {
                let pos = r.bit_pos().unwrap();
                let post = r.read_bits(POST_BITS).unwrap_or(u64::MAX);
                Some(Ok((val, pos, (pre << 8) | post)))
            }
        }
    };
    let want = (v, (PRE_BITS + dlen) as u64, (PRE << 8) | POST);
    match read_with(&|r| Some(direct_read::<E, _>(r, code))) {
        Some(Ok(x)) if x == want => {}
        other => bad("direct", "read", "value", format!("direct read gave {:?}, expected {:?}", other, want)),
    }
    for kind in 0..RKINDS.len() as u8 {
        if !stats_ok && RKINDS[kind as usize].starts_with("Stats") {
            continue;
        }
        let r = if kind == 3 {
            // the factory path: FactoryFuncCodeReader::new(code).get()
            match codes_of(code).and_then(|c| FactoryFuncCodeReader::<E, MemFactory<E>>::new(c).ok()) {
                None => None,
                Some(ff) => read_with(&|r| {
                    let f = ff.get();
                    Some(StaticCodeRead::read(&f, r).map_err(|e| format!("{e}")))
                }),
            }
        } else {
            read_with(&|r| disp_read::<E, _>(r, kind, code))
        };
        match r {
            None => {}
            Some(Ok(x)) => {
                out.cov.transitions += 1;
                if x.0 != want.0 {
                    let sym = if x.1 != want.1 { "value+position" } else { "value" };
                    bad(RKINDS[kind as usize], "read", sym, format!("dispatcher read {} but the direct method reads {} (reader left at {}, the codeword ends at {})", x.0, want.0, x.1, want.1));
                } else if x.1 != want.1 {
                    bad(RKINDS[kind as usize], "read", "position", format!("dispatcher left the reader at {} but the codeword ends at {}", x.1, want.1));
                } else if x.2 != want.2 {
                    bad(RKINDS[kind as usize], "read", "value", "bits around the codeword misread".into());
                }
            }
            Some(Err(msg)) => bad(RKINDS[kind as usize], "read", if msg.starts_with("panic") { "panic" } else { "error" }, msg),
        }
    }
}
    };
}
impl_check_item!(check_item_be, BE);
impl_check_item!(check_item_le, LE);

pub fn all_disp_codes() -> Vec<Code> {
    let mut v = vec![Code::Unary, Code::Gamma, Code::Delta, Code::Omega, Code::VByteBe, Code::VByteLe];
    for k in 1..=12 {
        v.push(Code::Zeta(k));
    }
    for k in 0..=12 {
        v.push(Code::Pi(k));
        v.push(Code::Rice(k));
        v.push(Code::ExpGolomb(k));
    }
    for b in 1..=12 {
        v.push(Code::Golomb(b));
    }
    for k in [17, 31, 32, 63] {
        v.push(Code::Zeta(k));
        v.push(Code::Pi(k));
        v.push(Code::Rice(k));
        v.push(Code::ExpGolomb(k));
    }
    for b in [100u64, 1 << 20, (1 << 40) + 1, u64::MAX - 1] {
        v.push(Code::Golomb(b));
    }
    v
}

pub fn run_item(e: End, code: Code, v: u64, out: &mut Outcome) {
    match e {
        End::BE => check_item_be(e, code, v, out),
        End::LE => check_item_le(e, code, v, out),
    }
}

pub fn c10(ctx: &Ctx) -> (CheckMeta, Outcome) {
    let mut tasks: Vec<Task> = vec![];
    let dense = if ctx.thorough { 65536 } else { 4096 };
    for e in End::BOTH {
        for code in all_disp_codes() {
            let seed = ctx.seed;
            tasks.push(Box::new(move || {
                let mut out = Outcome::new();
                out.cov.configs.insert(format!("{}/{}", e.name(), code.name()));
                let vals = values(code, dense, seed, 8);
                for &v in &vals {
                    let before = out.violations.len();
                    run_item(e, code, v, &mut out);
                    if out.violations.len() > before + 6 {
                        out.violations.truncate(before + 6);
                    }
                    if v > 0 && const_id(code).is_some() {
                        out.cov.nontrivial += 1;
                    }
                    if out.violations.len() > 60 {
                        break;
                    }
                }
                if code == Code::Pi(3) || code == Code::Golomb(5) {
                    out.cov.sample(json!({"e": e, "code": code, "const_id": const_id(code), "values": vals.len(), "writers": WKINDS, "readers": RKINDS, "lens": LKINDS}));
                }
                out
            }));
        }
    }
    // parameter space: a dispatcher may special-case PARAMETERS (a "fast path" for some moduli): every
    // Golomb modulus up to 4096 (thorough 65536) plus the neighbours of every power of two, and every
    // k in 0..=63 of the other parametric codes, each with a small value set around the parameter
    let bmax: u64 = if ctx.thorough { 65536 } else { 4096 };
    const PCHUNKS: u64 = 16;
    for e in End::BOTH {
        for chunk in 0..PCHUNKS {
            tasks.push(Box::new(move || {
                let mut out = Outcome::new();
                out.cov.configs.insert(format!("{}/param-sweep", e.name()));
                let mut bs: Vec<u64> = (13..=bmax).filter(|b| b % PCHUNKS == chunk).collect();
                for i in 12..63u32 {
                    for d in [-2i64, -1, 0, 1, 2, 64, 320] {
                        let b = (1u64 << i).wrapping_add(d as u64);
                        if b > bmax && b % PCHUNKS == chunk {
                            bs.push(b);
                        }
                    }
                }
                let mut codes_vals: Vec<(Code, u64)> = vec![];
                for &b in &bs {
                    for v in [0, 1, b - 1, b, b + 1, 2 * (b & (u64::MAX >> 3)) + 3, (7 * (b & (u64::MAX >> 3))).wrapping_sub(1)] {
                        codes_vals.push((Code::Golomb(b), v));
                    }
                }
                if chunk == 0 {
                    for k in 0..=63u32 {
                        for v in [0u64, 1, 2, 5, 255, 256, 65535, (1 << 20) + 3, (1u64 << k).wrapping_sub(1), 1u64 << k, (1u64 << k) | 1] {
                            if k >= 1 {
                                codes_vals.push((Code::Zeta(k), v));
                            }
                            codes_vals.push((Code::Pi(k), v));
                            codes_vals.push((Code::Rice(k), v));
                            codes_vals.push((Code::ExpGolomb(k), v));
                        }
                    }
                }
                for (code, v) in codes_vals {
                    if !crate::grid::in_domain(code, v) || crate::model::ref_len(code, v) > 600 {
                        continue;
                    }
                    let before = out.violations.len();
                    run_item(e, code, v, &mut out);
                    if out.violations.len() > before + 3 {
                        out.violations.truncate(before + 3);
                    }
                    out.cov.add_extra("param_sweep_items", 1);
                    if out.violations.len() > 30 {
                        break;
                    }
                }
                out
            }));
        }
    }
    let mut out = run_all(tasks, threads());
    if crate::pool::is_primary() {
        // the statistics wrapper is generic in the number of tracked codes per family: it must stay a
        // transparent dispatcher in other instantiations too (zero-sized families included)
        crate::props::stats::param_sweeps("C10", &mut out);
        out.violations.retain(|v| v.system != "stats-params" || v.op_class.starts_with("wrapper") || v.symptom == "panic");
    }
    // identifier space: every constant 0..=50 is named by at least one code, and the named map is onto
    if crate::pool::is_primary() {
        let named: std::collections::BTreeSet<usize> = all_named_consts().iter().map(|x| x.1).collect();
        for id in 0..N_CONSTS {
            if !named.contains(&id) {
                out.violations.push(Violation {
                    property: "C10".into(),
                    system: "dispatch:ids".into(),
                    config: "ids".into(),
                    op_class: "ids".into(),
                    symptom: "unnamed".into(),
                    detail: format!("identifier {} is not reachable through any named constant", id),
                    replay: json!({"kind": "none"}),
                });
            }
        }
        out.cov.add_extra("identifier_constants_covered", named.len() as u64);
    }
    let meta = CheckMeta {
        property: "C10".into(),
        level: "exploration".into(),
        rule: "the statistics wrapper in eight instantiations of its const parameters (unequal and zero-sized families included) returns the direct method's lengths and values on writes and reads; complete over identifiers (the enumeration value obtained with from_code_const from the constant of the same name must write the direct method's bits): every code named by the 51 code_consts (all aliases) and every Codes variant with parameters 0..=12 plus {17,31,32,63} / large Golomb moduli, and (parameter sweep, 7-11 values around each parameter) EVERY Golomb modulus up to 4096 (thorough 65536) with the neighbours (-2..+2, +64, +320) of every power of two above and EVERY k in 0..=63 of zeta, pi, Rice and exp-Golomb, x every dispatcher kind (Codes dynamic+static, FuncCodeWriter/Reader, FactoryFuncCodeReader::new().get(), ConstCode<ID> with ID taken from the constant's NAME, CodesStatsWrapper around Codes / Func* / ConstCode, Codes::len, FuncCodeLen, ConstCode::len) x {write, read, len} x both endiannesses x values (dense below 4096 (thorough 65536), every 2^i+-2, step points, maxima); oracle: bytes and returned length written via the dispatcher = those of the direct trait method (PRE bits, codeword, POST bits); value and end position read via the dispatcher = direct method; len = direct len; a dispatcher whose constructor refuses the code is skipped (Err, never another code); evaluations = (code, value, E) items, transitions = dispatcher calls compared; non-trivial = value > 0 of a code that has an identifier constant".into(),
        assumptions: vec!["the direct trait methods are the specification here (their own correctness is C03/C04/C06)".into()],
    };
    (meta, out)
}

pub fn replay(doc: &serde_json::Value) -> (Vec<String>, bool) {
    let e: End = serde_json::from_value(doc["e"].clone()).unwrap();
    let code: Code = serde_json::from_value(doc["code"].clone()).unwrap();
    let v = doc["v"].as_u64().unwrap();
    let mut out = Outcome::new();
    run_item(e, code, v, &mut out);
    let mut log = vec![format!("dispatch of {:?} value {} ({}): {} dispatcher calls compared with the direct method", code, v, e.name(), out.cov.transitions)];
    for x in &out.violations {
        log.push(format!("  [{} / {} / {}] {}", x.system, x.op_class, x.symptom, x.detail));
    }
    (log, !out.violations.is_empty())
}
