//! C03 / C04 / C06: value properties decided on streams written by the real writer
//! and read back by the real readers, over bounded-exhaustive grids.

use crate::grid::*;
use crate::model::{ref_len, Code, End};
use crate::pool::{run_all, threads, Task};
use crate::rd::KINDS;
use crate::report::{CheckMeta, Outcome};
use crate::streams::*;
use crate::wr::WBITS;
use crate::Ctx;

pub const CHUNK: usize = 512;

pub fn items_for(codes: &[Code], dense_core: u64, dense_rest: u64, seed: u64, extras: usize, wvar_rot: bool) -> Vec<Item> {
    let core = core_codes();
    let mut items = vec![];
    let mut rot = 0u8;
    for &c in codes {
        let dense = if core.contains(&c) { dense_core } else { dense_rest };
        for v in values(c, dense, seed, extras) {
            let nv = n_direct_write_variants(c) as u8;
            let wvar = if wvar_rot { rot % nv } else { 0 };
            rot = rot.wrapping_add(1);
            items.push(Item { code: c, v, wvar, follow: 0xFFFF });
        }
    }
    items
}

/// number of non-dispatch write variants (default + parametric)
pub fn n_direct_write_variants(code: Code) -> usize {
    write_variants(code, 0).iter().filter(|o| !matches!(o, crate::wr::WOp::Disp { .. })).count()
}

pub fn run_streams_pub(cfgs: Vec<StreamCfg>, items: std::sync::Arc<Vec<Item>>, ctx: &Ctx, keep: &'static [&'static str]) -> Outcome {
    run_streams(cfgs, items, ctx, keep)
}

fn run_streams(cfgs: Vec<StreamCfg>, items: std::sync::Arc<Vec<Item>>, ctx: &Ctx, keep: &'static [&'static str]) -> Outcome {
    let mut tasks: Vec<Task> = vec![];
    for cfg in cfgs {
        let items = items.clone();
        let diag = ctx.diag.clone();
        tasks.push(Box::new(move || {
            let mut out = Outcome::new();
            out.cov.configs.insert(cfg.id());
            crate::watchdog::enter(|| format!("{{\"stream\":\"{}\"}}", cfg.id()));
            for chunk in items.chunks(CHUNK) {
                check_stream(&cfg, chunk, &diag, &mut out);
                crate::watchdog::tick();
            }
            crate::watchdog::leave();
            // non-trivial: the codeword straddles a writer word boundary at this offset, or is beyond every table, or very long
            let mut nt = 0u64;
            let mut pos = 0usize;
            for it in items.iter() {
                let l = ref_len(it.code, it.v) as usize;
                let s = pos + cfg.offset;
                let t = s + l;
                if l > 0 && s / cfg.wbits != (t - 1) / cfg.wbits || it.v > 1023 {
                    nt += 1;
                }
                pos = t + ref_len(Code::Delta, 5) as usize + 7;
            }
            out.cov.nontrivial += nt;
            if out.cov.samples.is_empty() {
                let it = items[items.len() / 2];
                out.cov.sample(serde_json::json!({"stream": cfg.id(), "readers": cfg.readers, "item": it, "reference_codeword": crate::model::encode(it.code, it.v, cfg.e).to_string01()}));
            }
            out.violations.retain(|v| keep.contains(&v.property.as_str()));
            out
        }));
    }
    run_all(tasks, threads())
}

fn all_readers() -> Vec<(&'static str, &'static str)> {
    let mut r = vec![];
    for k in KINDS {
        r.push((k, "memzx"));
        r.push((k, "memstrict"));
    }
    r
}

fn stream_cfgs(ctx: &Ctx, with_disp: bool, all_variants: bool) -> (Vec<StreamCfg>, Vec<StreamCfg>) {
    // (a) every offset for the default pairing; (b) every writer word x every reader at 5 offsets
    let mut a = vec![];
    let mut b = vec![];
    for e in End::BOTH {
        for o in 0..=129usize {
            a.push(StreamCfg { e, wbits: 64, offset: o, readers: vec![("buf32", "memzx"), ("unbuf", "memstrict")], with_disp, all_read_variants: all_variants });
        }
        for w in WBITS {
            let offs: Vec<usize> = if ctx.thorough { (0..=2 * w.min(64) + 1).collect() } else { vec![0, 1, 7, w - 1, w + 1] };
            for o in offs {
                b.push(StreamCfg { e, wbits: w, offset: o, readers: all_readers(), with_disp, all_read_variants: all_variants });
            }
        }
    }
    (a, b)
}

pub fn c03(ctx: &Ctx) -> (CheckMeta, Outcome) {
    let (a, b) = stream_cfgs(ctx, false, true);
    let core = core_codes();
    let all = all_codes(ctx.seed);
    let (d_a, d_core, d_rest) = if ctx.thorough { (4096, 65536, 256) } else { (128, 1024, 16) };
    let items_a = std::sync::Arc::new(items_for(&core, d_a, d_a, ctx.seed, 6, true));
    let items_b = std::sync::Arc::new(items_for(&all, d_core, d_rest, ctx.seed, 3, true));
    let mut out = run_streams(a, items_a, ctx, &["C03"]);
    // thorough: the dense grid only on a reduced configuration set to bound the cost
    let b = if ctx.thorough {
        let items_dense = items_b.clone();
        let dense_cfgs: Vec<StreamCfg> = b.iter().filter(|c| [0usize, 1, 7, c.wbits - 1, c.wbits + 1].contains(&c.offset)).cloned().collect();
        out.merge(run_streams(dense_cfgs, items_dense, ctx, &["C03"]));
        let items_light = std::sync::Arc::new(items_for(&all, 64, 8, ctx.seed, 2, true));
        out.merge(run_streams(b, items_light, ctx, &["C03"]));
        vec![]
    } else {
        b
    };
    if !b.is_empty() {
        out.merge(run_streams(b, items_b, ctx, &["C03"]));
    }
    // (c) arbitrary following bits: every core code, small values, followed by EVERY byte value
    {
        let mut items = vec![];
        let vmax: u64 = if ctx.thorough { 300 } else { 72 };
        for &c in &core {
            for v in 0..vmax {
                if !in_domain(c, v) {
                    continue;
                }
                for f in 0..256u16 {
                    items.push(Item { code: c, v, wvar: 0, follow: f });
                }
            }
        }
        let mut cfgs = vec![];
        for e in End::BOTH {
            for (w, o) in [(64usize, 0usize), (32, 5), (8, 3)] {
                cfgs.push(StreamCfg { e, wbits: w, offset: o, readers: vec![("buf32", "memzx"), ("unbuf", "memstrict"), ("buf16", "memstrict"), ("buf64", "memzx")], with_disp: false, all_read_variants: true });
            }
        }
        out.merge(run_streams(cfgs, std::sync::Arc::new(items), ctx, &["C03"]));
    }
    out.merge(crate::props::readers::tail_exact("C03", ctx));
    let meta = CheckMeta {
        property: "C03".into(),
        level: "exploration".into(),
        rule: "bounded-exhaustive: histories 'o pattern bits; codeword; sentinel (delta(5)+7 raw bits)' written by the real writer and read back by real readers; (a) every offset 0..=129 x writer u64 x readers {buf32 zero-ext, unbuf strict} x core codes; (c) every core code x values below 72 (thorough 300) followed by EVERY byte value 0..=255 (the bits a look-ahead sees) on three writer/offset pairs x four readers; (b) every writer word 8..128 x every reader kind x {zero-ext, strict} x boundary offsets (thorough: every offset 0..=2W+1) x all codes (zeta 1..=63, pi/rice/exp-golomb 0..=63, golomb/minimal-binary moduli 1..=64, 2^i-1, 2^i, 2^i+1, 2^64-1), values dense below a bound plus every 2^i+-2, length steps, domain maxima, seeded extras, restricted to codewords <= 4096 bits; every read variant (default, parametric with/without tables) is tried on a clone; strict readers see the stream padded only to their own word size; (d) codewords ending exactly with the last bit of a strict stream; oracle: value, bit_pos after the read = end of the written codeword, sentinel decodes; non-trivial = codeword straddles a writer word boundary at that offset or value > 1023".into(),
        assumptions: vec!["readers that printed the look-ahead diagnostic for a table are not asked to use that table (library documentation: behaviour unpredictable otherwise)".into()],
    };
    (meta, out)
}

pub fn c04(ctx: &Ctx) -> (CheckMeta, Outcome) {
    // byte image of the real writer vs the reference encoder; no readers involved
    let mut cfgs = vec![];
    for e in End::BOTH {
        for w in WBITS {
            let offs: Vec<usize> = if ctx.thorough { (0..=w.min(64) + 1).collect() } else { vec![0, 3, w - 1] };
            for o in offs {
                cfgs.push(StreamCfg { e, wbits: w, offset: o, readers: vec![], with_disp: false, all_read_variants: false });
            }
        }
    }
    let all = all_codes(ctx.seed);
    let (d_core, d_rest) = if ctx.thorough { (65536, 1024) } else { (4096, 64) };
    // every write variant (tables on and off) gets the whole grid: rotate variants over passes
    let mut out = Outcome::new();
    let max_var = 5;
    for pass in 0..max_var {
        let mut items = items_for(&all, d_core, d_rest, ctx.seed, 3, false);
        items.retain(|it| pass < n_direct_write_variants(it.code));
        for it in items.iter_mut() {
            it.wvar = pass as u8;
        }
        if pass > 0 && !ctx.thorough {
            // quick: parametric variants on the default writer word only
            let c2: Vec<StreamCfg> = cfgs.iter().filter(|c| c.wbits == 64 || c.offset == 3).cloned().collect();
            out.merge(run_streams(c2, std::sync::Arc::new(items), ctx, &["C04", "C01"]));
        } else {
            out.merge(run_streams(cfgs.clone(), std::sync::Arc::new(items), ctx, &["C04", "C01"]));
        }
    }
    // the code writers are blanket implementations over BitWrite: the same codewords must come out
    // of the library's other BitWrite implementors (counting and tracing wrappers)
    {
        let mut o = crate::props::writers::wrapper_grid(ctx, "C04");
        o.violations.retain(|v| v.symptom != "counter");
        out.merge(o);
    }
    if crate::pool::is_primary() {
        out.cov.traces_validated += crate::props::modelval::validate_reference(&mut out);
    }
    let meta = CheckMeta {
        property: "C04".into(),
        level: "exploration".into(),
        rule: "bounded-exhaustive: bytes produced by the real writer for 'o pattern bits; codeword; sentinel' vs the image of the reference encoder (textbook definitions in harness/src/model.rs, validated against python/gen_code_tables.py, the documented table and tests/test_codes_regression.rs); all codes and parameters as C03, every value below 4096 (65536 thorough) for core codes plus boundaries, every writer word size, every default/parametric write variant with tables on and off; plus every code x parameter x boundary value written through the library's other BitWrite implementors (CountBitWriter, DbgBitWriter): returned length and delivered bytes; zeta compared only where 2^((h+1)k) <= 2^64; non-trivial as C03".into(),
        assumptions: vec!["reference encoder is an independent transcription of the module documentation".into()],
    };
    (meta, out)
}

/// every library length function for the code (name, value)
pub fn lib_lens(code: Code, v: u64) -> Vec<(String, usize)> {
    use dsi_bitstream::prelude::*;
    let mut o: Vec<(String, usize)> = vec![("direct".into(), crate::disp::direct_len(code, v))];
    match code {
        Code::Gamma => {
            o.push(("len_gamma_param<false>".into(), len_gamma_param::<false>(v)));
            o.push(("len_gamma_param<true>".into(), len_gamma_param::<true>(v)));
        }
        Code::Delta => {
            o.push(("len_delta_param<false,false>".into(), len_delta_param::<false, false>(v)));
            o.push(("len_delta_param<false,true>".into(), len_delta_param::<false, true>(v)));
            o.push(("len_delta_param<true,false>".into(), len_delta_param::<true, false>(v)));
            o.push(("len_delta_param<true,true>".into(), len_delta_param::<true, true>(v)));
        }
        Code::Zeta(k) => {
            o.push(("len_zeta_param<false>".into(), len_zeta_param::<false>(v, k as usize)));
            o.push(("len_zeta_param<true>".into(), len_zeta_param::<true>(v, k as usize)));
        }
        Code::VByteBe | Code::VByteLe => {
            o.push(("8*byte_len_vbyte".into(), 8 * byte_len_vbyte(v)));
        }
        _ => {}
    }
    for kind in 0..crate::disp::LKINDS.len() as u8 {
        if let Some(l) = crate::disp::disp_len(kind, code, v) {
            o.push((crate::disp::LKINDS[kind as usize].to_string(), l));
        }
    }
    o
}

pub fn c06(ctx: &Ctx) -> (CheckMeta, Outcome) {
    // (1) pure grid over every length function
    let all = all_codes(ctx.seed);
    let core = core_codes();
    let dense: u64 = if ctx.thorough { 1 << 22 } else { 1 << 20 };
    let mut tasks: Vec<Task> = vec![];
    for chunk in all.chunks(8) {
        let chunk: Vec<Code> = chunk.to_vec();
        let core = core.clone();
        let seed = ctx.seed;
        tasks.push(Box::new(move || {
            let mut out = Outcome::new();
            for code in chunk {
                let mut vals = boundary_values_raw(code, seed, 16);
                let d = if core.contains(&code) { dense } else { 1 << 10 };
                for v in 0..d.min(code.max_value().saturating_add(1)) {
                    vals.insert(v);
                }
                let mut prev: Option<u128> = None;
                for v in vals {
                    let r = ref_len(code, v);
                    let step = prev.map(|p| p != r).unwrap_or(true);
                    prev = Some(r);
                    let lens = std::panic::catch_unwind(|| lib_lens(code, v));
                    out.cov.evaluations += 1;
                    if step || v > (1 << 32) {
                        out.cov.nontrivial += 1;
                    }
                    let bad: Option<(String, String, &str)> = match lens {
                        Err(p) => Some(("len".into(), format!("length function panicked: {}", crate::util::panic_msg(&p)), "panic")),
                        Ok(ls) => ls.iter().find(|(_, l)| *l as u128 != r).map(|(n, l)| (n.clone(), format!("{} = {} but the codeword has {} bits", n, l, r), "length")),
                    };
                    if let Some((name, detail, sym)) = bad {
                        out.violations.push(crate::report::Violation {
                            property: "C06".into(),
                            system: "len-fn".into(),
                            config: name,
                            op_class: format!("len:{}", code.family()),
                            symptom: sym.into(),
                            detail: format!("{:?} value {}: {}", code, v, detail),
                            replay: serde_json::json!({"kind": "len", "code": code, "v": v}),
                        });
                    }
                }
                if out.cov.samples.len() < 2 {
                    out.cov.sample(serde_json::json!({"code": code, "value": 1000, "lengths": lib_lens(code, 1000.min(code.max_value())), "reference": ref_len(code, 1000.min(code.max_value())) as u64}));
                }
            }
            out
        }));
    }
    let mut out = run_all(tasks, threads());
    // (2) streams: write return, growth of the stream and bits consumed by the read
    let mut cfgs = vec![];
    for e in End::BOTH {
        for w in WBITS {
            for o in [0usize, 5] {
                cfgs.push(StreamCfg { e, wbits: w, offset: o, readers: vec![("buf32", "memzx"), ("buf16", "memstrict"), ("unbuf", "memzx")], with_disp: false, all_read_variants: true });
            }
        }
    }
    let (dc, dr) = if ctx.thorough { (16384, 128) } else { (1024, 16) };
    let items = std::sync::Arc::new(items_for(&all, dc, dr, ctx.seed, 4, true));
    let mut o2 = run_streams(cfgs, items, ctx, &["C06", "C03"]);
    o2.violations.retain(|v| v.property == "C06" || v.symptom.contains("position"));
    for v in o2.violations.iter_mut() {
        v.property = "C06".into();
    }
    out.merge(o2);
    // (3) the same through the dispatch objects (Codes, FuncCodeReader/Writer, factories, ConstCode,
    // the statistics wrapper): bits reported by a dispatched write, bits consumed by a dispatched read
    {
        let mut cfgs = vec![];
        for e in End::BOTH {
            for o in [0usize, 5] {
                cfgs.push(StreamCfg { e, wbits: 64, offset: o, readers: vec![("buf32", "memzx"), ("unbuf", "memstrict")], with_disp: true, all_read_variants: true });
            }
        }
        let disp_codes: Vec<Code> = all.iter().copied().filter(|c| crate::disp::codes_of(*c).is_some()).collect();
        let (dc, dr) = if ctx.thorough { (4096, 512) } else { (512, 128) };
        let mut items = items_for(&disp_codes, dc, dr, ctx.seed, 2, false);
        // dispatched writes as well: one extra item per (code, small value) for every write variant
        for &c in &disp_codes {
            let nv = crate::streams::write_variants(c, 0).len() as u8;
            for v in [0u64, 1, 5, 6, 7, 8, 11, 23, 64, 1000] {
                if !in_domain(c, v) {
                    continue;
                }
                for wvar in 0..nv {
                    items.push(Item { code: c, v, wvar, follow: 0xFFFF });
                }
            }
        }
        let mut o3 = run_streams(cfgs, std::sync::Arc::new(items), ctx, &["C10"]);
        o3.violations.retain(|v| v.symptom.contains("position") || v.symptom == "length");
        for v in o3.violations.iter_mut() {
            v.property = "C06".into();
        }
        out.merge(o3);
        // the dispatch engine of C10 (includes the real FactoryFuncCodeReader over a memory factory):
        // its length and consumed-bits findings are C06 findings too
        let mut o4 = crate::props::dispatch::c10(ctx).1;
        o4.violations.retain(|v| v.symptom.contains("position") || v.symptom == "length");
        for v in o4.violations.iter_mut() {
            v.property = "C06".into();
        }
        out.merge(o4);
    }
    // the "length of the next codeword" helpers of the table modules (len_table_be/le): C05's direct-call
    // section, keeping its length findings
    {
        let mut o5 = crate::props::tables::helper_functions(ctx);
        o5.violations.retain(|v| v.op_class == "len_table");
        for v in o5.violations.iter_mut() {
            v.property = "C06".into();
        }
        out.merge(o5);
    }
    // (4) the byte-level VByte writers report what they wrote: into sinks that accept 1, 2 or 3 bytes per
    // call the returned count must still be byte_len_vbyte(v) and that many bytes must be in the sink
    if crate::pool::is_primary() {
        use dsi_bitstream::prelude::*;
        struct Chunk(Vec<u8>, usize);
        impl std::io::Write for Chunk {
            fn write(&mut self, buf: &[u8]) -> std::io::Result<usize> {
                let k = buf.len().min(self.1);
                self.0.extend_from_slice(&buf[..k]);
                Ok(k)
            }
            fn flush(&mut self) -> std::io::Result<()> {
                Ok(())
            }
        }
        out.cov.configs.insert("vbyte-io/chunking-sinks".into());
        for v in boundary_values_raw(Code::VByteBe, ctx.seed, 16) {
            for k in 1..=3usize {
                for big in [true, false] {
                    let mut sink = Chunk(vec![], k);
                    let r = if big { vbyte_write_be(v, &mut sink) } else { vbyte_write_le(v, &mut sink) };
                    out.cov.evaluations += 1;
                    let want = byte_len_vbyte(v);
                    let bad = match r {
                        Ok(n) if n == want && sink.0.len() == want => None,
                        Ok(n) => Some(format!("returned {} and left {} bytes in the sink, byte_len_vbyte says {}", n, sink.0.len(), want)),
                        Err(e) => Some(format!("failed: {}", e)),
                    };
                    if let Some(d) = bad {
                        if out.violations.len() < 200 {
                            out.violations.push(crate::report::Violation {
                                property: "C06".into(),
                                system: "vbyte-io".into(),
                                config: if big { "be".into() } else { "le".into() },
                                op_class: "len:vbyte".into(),
                                symptom: "length".into(),
                                detail: format!("vbyte_write_{}({}) into a sink accepting {} bytes per call {}", if big { "be" } else { "le" }, v, k, d),
                                replay: serde_json::json!({"kind": "none"}),
                            });
                        }
                    }
                }
            }
        }
    }
    // bits consumed by a read whose codeword ends with the last bit of a strict stream
    out.merge(crate::props::readers::tail_exact("C06", ctx));
    let meta = CheckMeta {
        property: "C06".into(),
        level: "exploration".into(),
        rule: "bounded-exhaustive: (1) every library length function (len_*, len_*_param with tables on/off, byte_len_vbyte, Codes::len, FuncCodeLen, ConstCode::len) vs the reference codeword length for all codes/parameters, all values below 2^20 (2^22 thorough) for core codes, below 2^10 otherwise, every 2^i+-2, every code-specific step point, domain maxima, seeded extras (no codeword-length restriction); (2) streams as in C03: value returned by write_*, growth of the real stream and bit_pos advance of every read variant, also for codewords that end with the last bit of a strict stream; (3) the same streams written and read through every dispatch mechanism (Codes dynamic/static, FuncCodeReader/Writer, factory readers, ConstCode, the statistics wrapper): returned lengths and bits consumed; the len_table_be/le helpers of the three table modules on every index; (4) the byte-level VByte writers into sinks accepting 1-3 bytes per call: returned count = bytes in the sink = byte_len_vbyte; non-trivial = value at which the reference length steps, or value > 2^32".into(),
        assumptions: vec!["reference length = length of the reference codeword (harness/src/model.rs)".into()],
    };
    (meta, out)
}

pub fn replay_len(doc: &serde_json::Value) -> (Vec<String>, bool) {
    let code: Code = serde_json::from_value(doc["code"].clone()).unwrap();
    let v = doc["v"].as_u64().unwrap();
    let r = ref_len(code, v);
    let mut log = vec![format!("{:?} value {}: reference codeword length {}", code, v, r)];
    let mut failed = false;
    match std::panic::catch_unwind(|| lib_lens(code, v)) {
        Err(p) => {
            log.push(format!("length function panicked: {}", crate::util::panic_msg(&p)));
            failed = true;
        }
        Ok(ls) => {
            for (n, l) in ls {
                let ok = l as u128 == r;
                failed |= !ok;
                log.push(format!("  {:<32} = {} {}", n, l, if ok { "ok" } else { "MISMATCH" }));
            }
        }
    }
    (log, failed)
}
