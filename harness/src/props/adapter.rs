//! C11: WordAdapter under every behaviour std::io allows the wrapped object.
//! Deviation-bounded exploration of the environment: the wrapped Read/Write is an
//! explorer-controlled object whose answer at every call is a choice; all schedules
//! with 0, 1, 2 deviations from the default answer (full transfer / Ok) are run.

use crate::pool::{run_all, threads, Task};
use crate::report::{CheckMeta, Outcome, Violation};
use crate::Ctx;
use common_traits::{FromBytes, ToBytes};
use dsi_bitstream::prelude::*;
use serde_json::{json, Value};
use std::cell::RefCell;
use std::io::{Read, Write};
use std::rc::Rc;

#[derive(Default)]
pub struct Script {
    /// choices to take at the first points; afterwards the default (0)
    prefix: Vec<usize>,
    /// recorded points: (description, number of alternatives, choice taken)
    points: Vec<(String, usize, usize)>,
}
impl Script {
    fn choose(&mut self, desc: String, n_alts: usize) -> usize {
        let i = self.points.len();
        let c = if i < self.prefix.len() { self.prefix[i] } else { 0 };
        assert!(c < n_alts, "replay diverged: choice {} out of {} at point {} ({})", c, n_alts, i, desc);
        self.points.push((desc, n_alts, c));
        c
    }
}

pub struct EnvWrite {
    script: Rc<RefCell<Script>>,
    sink: Rc<RefCell<Vec<u8>>>,
}
impl Write for EnvWrite {
    fn write(&mut self, buf: &[u8]) -> std::io::Result<usize> {
        if buf.is_empty() {
            return Ok(0);
        }
        // 0 = whole buffer; 1..=len = short count k-1 (0..len-1); len+1 = Interrupted; len+2 = hard error
        let l = buf.len();
        let c = self.script.borrow_mut().choose(format!("write({} bytes)", l), l + 3);
        if c == 0 {
            self.sink.borrow_mut().extend_from_slice(buf);
            Ok(l)
        } else if c <= l {
            let k = c - 1;
            self.sink.borrow_mut().extend_from_slice(&buf[..k]);
            Ok(k)
        } else if c == l + 1 {
            Err(std::io::Error::new(std::io::ErrorKind::Interrupted, "injected EINTR"))
        } else {
            Err(std::io::Error::new(std::io::ErrorKind::Other, "injected hard error"))
        }
    }
    fn flush(&mut self) -> std::io::Result<()> {
        let c = self.script.borrow_mut().choose("flush".into(), 2);
        if c == 0 {
            Ok(())
        } else {
            Err(std::io::Error::new(std::io::ErrorKind::Other, "injected flush error"))
        }
    }
}

pub struct EnvRead {
    script: Rc<RefCell<Script>>,
    src: Vec<u8>,
    pos: Rc<RefCell<usize>>,
}
impl Read for EnvRead {
    fn read(&mut self, buf: &mut [u8]) -> std::io::Result<usize> {
        let avail = self.src.len() - *self.pos.borrow();
        let l = buf.len().min(avail);
        if buf.is_empty() {
            return Ok(0);
        }
        if l == 0 {
            // end of data: Ok(0) is the only data answer; deviations: Interrupted / hard error
            let c = self.script.borrow_mut().choose("read at EOF".into(), 3);
            return match c {
                0 => Ok(0),
                1 => Err(std::io::Error::new(std::io::ErrorKind::Interrupted, "injected EINTR")),
                _ => Err(std::io::Error::new(std::io::ErrorKind::Other, "injected hard error")),
            };
        }
        // 0 = as much as possible; 1..l-1 = short read of k bytes; l = Interrupted; l+1 = hard error
        let c = self.script.borrow_mut().choose(format!("read(buf {} bytes, {} available)", buf.len(), avail), l + 2);
        let k = if c == 0 {
            l
        } else if c < l {
            c
        } else if c == l {
            return Err(std::io::Error::new(std::io::ErrorKind::Interrupted, "injected EINTR"));
        } else {
            return Err(std::io::Error::new(std::io::ErrorKind::Other, "injected hard error"));
        };
        let p = *self.pos.borrow();
        buf[..k].copy_from_slice(&self.src[p..p + k]);
        *self.pos.borrow_mut() += k;
        Ok(k)
    }
}

fn word_pattern(i: usize, nbytes: usize) -> Vec<u8> {
    (0..nbytes).map(|j| (0x11u8).wrapping_mul(i as u8 + 1).wrapping_add((j as u8).wrapping_mul(0x35)) | 1).collect()
}

/// One execution of the write driver under a choice prefix. Returns (points, verdict).
fn run_write<W: Word>(nwords: usize, prefix: &[usize]) -> (Vec<(String, usize, usize)>, Result<(), String>)
where
    W::Bytes: Default + AsMut<[u8]> + AsRef<[u8]>,
{
    let script = Rc::new(RefCell::new(Script { prefix: prefix.to_vec(), points: vec![] }));
    let sink = Rc::new(RefCell::new(Vec::new()));
    let mut a = WordAdapter::<W, EnvWrite>::new(EnvWrite { script: script.clone(), sink: sink.clone() });
    let mut expected: Vec<u8> = vec![];
    let mut verdict = Ok(());
    let r = std::panic::catch_unwind(std::panic::AssertUnwindSafe(|| {
        for i in 0..nwords {
            let bytes = word_pattern(i, W::BYTES);
            let mut b: W::Bytes = Default::default();
            b.as_mut().copy_from_slice(&bytes);
            let w = <W as FromBytes>::from_ne_bytes(b);
            match a.write_word(w) {
                Ok(()) => {
                    expected.extend_from_slice(&bytes);
                    if *sink.borrow() != expected {
                        return Err(format!(
                            "write_word #{} returned Ok but the sink holds {} instead of {} (bytes dropped, duplicated or reordered)",
                            i,
                            crate::util::hex(&sink.borrow()),
                            crate::util::hex(&expected)
                        ));
                    }
                }
                Err(_) => return Ok(()), // an error was reported: allowed
            }
        }
        match WordWrite::flush(&mut a) {
            Ok(()) | Err(_) => {}
        }
        if *sink.borrow() != expected {
            return Err("sink changed by flush".to_string());
        }
        Ok(())
    }));
    match r {
        Ok(v) => verdict = v,
        Err(p) => verdict = Err(format!("panic: {}", crate::util::panic_msg(&p))),
    }
    let pts = script.borrow().points.clone();
    (pts, verdict)
}

fn run_read<W: Word>(nwords: usize, tail: usize, prefix: &[usize]) -> (Vec<(String, usize, usize)>, Result<(), String>)
where
    W::Bytes: Default + AsMut<[u8]> + AsRef<[u8]>,
{
    let script = Rc::new(RefCell::new(Script { prefix: prefix.to_vec(), points: vec![] }));
    let mut src: Vec<u8> = vec![];
    for i in 0..nwords {
        src.extend(word_pattern(i, W::BYTES));
    }
    src.extend(word_pattern(7, tail)); // partial trailing word
    let pos = Rc::new(RefCell::new(0usize));
    let mut a = WordAdapter::<W, EnvRead>::new(EnvRead { script: script.clone(), src: src.clone(), pos: pos.clone() });
    let r = std::panic::catch_unwind(std::panic::AssertUnwindSafe(|| {
        for i in 0..nwords + 1 {
            match a.read_word() {
                Ok(w) => {
                    let got = <W as ToBytes>::to_ne_bytes(w);
                    if i >= nwords {
                        return Err(format!("read_word #{} returned a word although only {} whole words exist (partial trailing word must be an error)", i, nwords));
                    }
                    let want = &src[i * W::BYTES..(i + 1) * W::BYTES];
                    if got.as_ref() != want {
                        return Err(format!("read_word #{} returned bytes {} but the source holds {}", i, crate::util::hex(got.as_ref()), crate::util::hex(want)));
                    }
                    if *pos.borrow() != (i + 1) * W::BYTES {
                        return Err(format!("read_word #{} consumed {} source bytes in total, expected {}", i, *pos.borrow(), (i + 1) * W::BYTES));
                    }
                }
                Err(_) => return Ok(()),
            }
        }
        Ok(())
    }));
    let verdict = match r {
        Ok(v) => v,
        Err(p) => Err(format!("panic: {}", crate::util::panic_msg(&p))),
    };
    let pts = script.borrow().points.clone();
    (pts, verdict)
}

fn deviations(choices: &[usize]) -> usize {
    choices.iter().filter(|&&c| c != 0).count()
}

/// Deviation-bounded exploration (0, then 1, then ... `bound` deviations).
fn explore_env(run: &dyn Fn(&[usize]) -> (Vec<(String, usize, usize)>, Result<(), String>), bound: usize, out: &mut Outcome, mk_v: &dyn Fn(&[usize], &[(String, usize, usize)], String) -> Violation) {
    fn rec(
        run: &dyn Fn(&[usize]) -> (Vec<(String, usize, usize)>, Result<(), String>),
        prefix: Vec<usize>,
        bound: usize,
        out: &mut Outcome,
        mk_v: &dyn Fn(&[usize], &[(String, usize, usize)], String) -> Violation,
        first: &mut bool,
    ) {
        let (pts, verdict) = run(&prefix);
        out.cov.states += 1;
        out.cov.transitions += pts.len() as u64;
        out.cov.traces_validated += 1;
        if prefix.iter().any(|&c| c != 0) {
            out.cov.nontrivial += 1;
        }
        out.cov.max_depth = out.cov.max_depth.max(pts.len() as u64);
        let choices: Vec<usize> = pts.iter().map(|p| p.2).collect();
        out.cov.observe("schedule", crate::util::fnv(format!("{:?}{:?}", choices.len(), verdict.is_ok()).as_bytes()));
        if let Err(msg) = verdict {
            if out.violations.len() < 40 {
                out.violations.push(mk_v(&choices, &pts, msg));
            }
        }
        if *first && deviations(&choices) == 2 {
            *first = false;
            out.cov.sample(json!({"schedule": pts.iter().map(|p| format!("{} -> choice {}/{}", p.0, p.2, p.1)).collect::<Vec<_>>()}));
        }
        for i in prefix.len()..pts.len() {
            let dev_before = deviations(&choices[..i]);
            if dev_before + 1 > bound {
                continue;
            }
            for alt in 1..pts[i].1 {
                let mut p: Vec<usize> = choices[..i].to_vec();
                p.push(alt);
                rec(run, p, bound, out, mk_v, first);
            }
        }
    }
    let mut first = true;
    rec(run, vec![], bound, out, mk_v, &mut first);
}

macro_rules! for_words {
    ($wbits:expr, $f:ident, $($args:expr),*) => {
        match $wbits {
            8 => $f::<u8>($($args),*),
            16 => $f::<u16>($($args),*),
            32 => $f::<u32>($($args),*),
            64 => $f::<u64>($($args),*),
            128 => $f::<u128>($($args),*),
            _ => unreachable!(),
        }
    };
}

fn run_write_dyn(wbits: usize, nwords: usize, prefix: &[usize]) -> (Vec<(String, usize, usize)>, Result<(), String>) {
    for_words!(wbits, run_write, nwords, prefix)
}
fn run_read_dyn(wbits: usize, nwords: usize, tail: usize, prefix: &[usize]) -> (Vec<(String, usize, usize)>, Result<(), String>) {
    for_words!(wbits, run_read, nwords, tail, prefix)
}

// ---- seekable adapter over Cursor: word positions (explicit-state BFS vs byte-vector model)

/// A Cursor that can be told to fail in the middle of the next word: the next read delivers at most
/// `k` bytes and the read after that fails with a hard error (once).  Otherwise it is the Cursor.
#[derive(Debug, Clone)]
struct FaultCursor {
    inner: std::io::Cursor<Vec<u8>>,
    /// Some(k): short read of k bytes pending; None: no fault armed
    short: Option<usize>,
    fail_next: bool,
}
impl FaultCursor {
    fn new(c: std::io::Cursor<Vec<u8>>) -> Self {
        FaultCursor { inner: c, short: None, fail_next: false }
    }
    fn into_inner(self) -> Vec<u8> {
        self.inner.into_inner()
    }
}
impl std::io::Read for FaultCursor {
    fn read(&mut self, buf: &mut [u8]) -> std::io::Result<usize> {
        if self.fail_next {
            self.fail_next = false;
            return Err(std::io::Error::new(std::io::ErrorKind::Other, "injected hard error"));
        }
        if let Some(k) = self.short.take() {
            self.fail_next = true;
            let n = k.min(buf.len());
            return self.inner.read(&mut buf[..n]);
        }
        self.inner.read(buf)
    }
}
impl std::io::Write for FaultCursor {
    fn write(&mut self, buf: &[u8]) -> std::io::Result<usize> {
        self.inner.write(buf)
    }
    fn flush(&mut self) -> std::io::Result<()> {
        self.inner.flush()
    }
}
impl std::io::Seek for FaultCursor {
    fn seek(&mut self, pos: std::io::SeekFrom) -> std::io::Result<u64> {
        self.inner.seek(pos)
    }
}

fn cursor_bfs<W: Word>(wbits: usize, depth: usize, out: &mut Outcome)
where
    W::Bytes: Default + AsMut<[u8]> + AsRef<[u8]>,
{
    use std::collections::{HashSet, VecDeque};
    use std::io::Cursor;
    #[derive(Clone, Debug, PartialEq)]
    enum Op {
        Read,
        Write(u8),
        Seek(u64),
        /// read_word during which the source delivers k bytes and then fails hard
        ReadFault(usize),
    }
    let wb = W::BYTES;
    let init: Vec<u8> = (0..3 * wb).map(|i| (i as u8).wrapping_mul(29).wrapping_add(3)).collect();
    let mut ops: Vec<Op> = vec![Op::Read, Op::Write(0xA1), Op::Write(0x5E), Op::Seek(0), Op::Seek(1), Op::Seek(2), Op::Seek(3), Op::Seek(4), Op::Seek(6)];
    if wb > 1 {
        ops.push(Op::ReadFault(1));
        if wb > 2 {
            ops.push(Op::ReadFault(wb - 1));
        }
    }
    // state = (real adapter, model bytes, model byte position)
    let mut seen: HashSet<String> = HashSet::new();
    let mut q: VecDeque<(WordAdapter<W, FaultCursor>, Vec<u8>, usize, Vec<Op>)> = VecDeque::new();
    // the adapter is created over a stream at offset 0 and over streams already positioned after 1 or 2 words
    for start_words in [0usize, 1, 2] {
        let mut c = Cursor::new(init.clone());
        c.set_position((start_words * wb) as u64);
        let a0 = WordAdapter::<W, FaultCursor>::new(FaultCursor::new(c));
        seen.insert(format!("{:?}", a0));
        q.push_back((a0, init.clone(), start_words * wb, vec![]));
    }
    // byte streams with a partial trailing word (reading it fails and leaves the stream mid-word), and
    // adapters created over a stream positioned mid-word: in both cases the position is UNKNOWN
    // (usize::MAX) until a seek, which must address the word it names whatever preceded it
    const UNKNOWN: usize = usize::MAX;
    if wb > 1 {
        for tail in [1usize, wb - 1] {
            let mut ragged = init.clone();
            ragged.extend((0..tail).map(|i| 0xC0u8 + i as u8));
            let a0 = WordAdapter::<W, FaultCursor>::new(FaultCursor::new(Cursor::new(ragged.clone())));
            if seen.insert(format!("{:?}", a0)) {
                q.push_back((a0, ragged.clone(), 0, vec![]));
            }
            let mut c = Cursor::new(ragged.clone());
            c.set_position((wb + tail) as u64);
            let a1 = WordAdapter::<W, FaultCursor>::new(FaultCursor::new(c));
            if seen.insert(format!("{:?}/unknown", a1)) {
                q.push_back((a1, ragged, UNKNOWN, vec![]));
            }
        }
    }
    while let Some((a, m, mp, path)) = q.pop_front() {
        out.cov.states += 1;
        if path.len() >= depth {
            continue;
        }
        for op in &ops {
            if mp == UNKNOWN && !matches!(op, Op::Seek(_)) {
                continue;
            }
            let mut a2 = a.clone();
            let mut m2 = m.clone();
            let mut mp2 = mp;
            let mut p2 = path.clone();
            p2.push(op.clone());
            out.cov.transitions += 1;
            out.cov.traces_validated += 1;
            let mut fail: Option<String> = None;
            match op {
                Op::Read => {
                    let r = a2.read_word();
                    if mp + wb <= m.len() {
                        let want = &m[mp..mp + wb];
                        match r {
                            Ok(w) => {
                                if <W as ToBytes>::to_ne_bytes(w).as_ref() != want {
                                    fail = Some(format!("read_word returned the wrong word at byte {}", mp));
                                }
                                mp2 = mp + wb;
                            }
                            Err(e) => fail = Some(format!("read_word failed inside the data: {}", e)),
                        }
                    } else {
                        if r.is_ok() {
                            fail = Some("read_word beyond the end returned a word".into());
                        }
                        // the position after a failed read_exact is unspecified: only seeks go on from here
                        mp2 = UNKNOWN;
                    }
                }
                Op::Write(x) => {
                    let bytes: Vec<u8> = (0..wb).map(|j| x.wrapping_add(j as u8)).collect();
                    let mut b: W::Bytes = Default::default();
                    b.as_mut().copy_from_slice(&bytes);
                    match a2.write_word(<W as FromBytes>::from_ne_bytes(b)) {
                        Ok(()) => {
                            if m2.len() < mp + wb {
                                m2.resize(mp + wb, 0);
                            }
                            m2[mp..mp + wb].copy_from_slice(&bytes);
                            mp2 = mp + wb;
                        }
                        Err(e) => fail = Some(format!("write_word failed: {}", e)),
                    }
                }
                Op::ReadFault(k) => {
                    // arm the fault on the real object (the adapter itself has no such knob: rebuild it
                    // around the same stream), read, and expect a reported error; only seeks go on
                    let mut fc = a2.into_inner();
                    fc.short = Some(*k);
                    fc.fail_next = false;
                    a2 = WordAdapter::<W, FaultCursor>::new(fc);
                    if mp + wb > m.len() {
                        continue;
                    }
                    match a2.read_word() {
                        Err(_) => mp2 = UNKNOWN,
                        Ok(_) => fail = Some(format!("read_word returned a word although the source failed after {} bytes of it", k)),
                    }
                }
                Op::Seek(k) => match a2.set_word_pos(*k) {
                    Ok(()) => mp2 = *k as usize * wb,
                    Err(e) => fail = Some(format!("set_word_pos({}) failed: {}", k, e)),
                },
            }
            if fail.is_none() && mp2 != UNKNOWN {
                match a2.word_pos() {
                    Ok(p) if p as usize * wb == mp2 => {}
                    Ok(p) => fail = Some(format!("word_pos() = {} but {} bytes = {} words precede the cursor", p, mp2, mp2 / wb)),
                    Err(e) => fail = Some(format!("word_pos failed: {}", e)),
                }
            }
            if fail.is_none() && a2.clone().into_inner().into_inner() != m2 {
                fail = Some("underlying bytes differ from the model".into());
            }
            if let Some(msg) = fail {
                if out.violations.len() < 20 {
                    out.violations.push(Violation {
                        property: "C11".into(),
                        system: "adapter-cursor".into(),
                        config: format!("w{}", wbits),
                        op_class: format!("{:?}", op).split('(').next().unwrap().to_lowercase(),
                        symptom: "position".into(),
                        detail: format!("after {:?}: {}", path, msg),
                        replay: json!({"kind": "adapter-cursor", "wbits": wbits, "ops": format!("{:?}", p2)}),
                    });
                }
                continue;
            }
            let key = if mp2 == UNKNOWN { format!("{:?}/unknown", a2) } else { format!("{:?}", a2) };
            if seen.insert(key) {
                q.push_back((a2, m2, mp2, p2));
            }
        }
    }
}

pub fn check_one(side: &str, wbits: usize, nwords: usize, tail: usize, bound: usize, out: &mut Outcome) {
    let cfg = format!("{}/w{}/{}words+{}", side, wbits, nwords, tail);
    out.cov.configs.insert(cfg.clone());
    let side_s = side.to_string();
    let mk_v = move |choices: &[usize], pts: &[(String, usize, usize)], msg: String| Violation {
        property: "C11".into(),
        system: format!("adapter-{}", side_s),
        config: format!("w{}", wbits),
        op_class: if side_s == "write" { "write_word".into() } else { "read_word".into() },
        symptom: if msg.starts_with("panic") { "panic".into() } else { "silent-loss".into() },
        detail: format!("{} words, schedule {:?}: {}", nwords, pts.iter().map(|p| format!("{}=>{}", p.0, p.2)).collect::<Vec<_>>(), msg),
        replay: json!({"kind": "adapter-env", "side": side_s, "wbits": wbits, "nwords": nwords, "tail": tail, "choices": choices}),
    };
    if side == "write" {
        explore_env(&|p| run_write_dyn(wbits, nwords, p), bound, out, &mk_v);
    } else {
        explore_env(&|p| run_read_dyn(wbits, nwords, tail, p), bound, out, &mk_v);
    }
}

pub fn c11(ctx: &Ctx) -> (CheckMeta, Outcome) {
    let mut tasks: Vec<Task> = vec![];
    let bound = if ctx.thorough { 5 } else { 3 };
    for wbits in [8usize, 16, 32, 64, 128] {
        for nwords in 1..=3usize {
            tasks.push(Box::new(move || {
                let mut out = Outcome::new();
                check_one("write", wbits, nwords, 0, bound, &mut out);
                out
            }));
            for tail in [0usize, 1, wbits / 8 - 1] {
                if tail >= wbits / 8 && tail > 0 {
                    continue;
                }
                tasks.push(Box::new(move || {
                    let mut out = Outcome::new();
                    check_one("read", wbits, nwords, tail, bound, &mut out);
                    out
                }));
            }
        }
        let depth = if ctx.thorough { 7 } else { 6 };
        tasks.push(Box::new(move || {
            let mut out = Outcome::new();
            out.cov.configs.insert(format!("cursor/w{}", wbits));
            for_words!(wbits, cursor_bfs, wbits, depth, &mut out);
            out
        }));
    }
    // bit streams through the adapter over byte sinks (plain, 3 bytes per call, committing on flush only)
    // vs memory: histories ending exactly on a word boundary and in the middle of a word
    for e in crate::model::End::BOTH {
        for wbits in [8usize, 16, 32, 64, 128] {
            tasks.push(Box::new(move || {
                use crate::wr::WOp;
                let mut out = Outcome::new();
                out.cov.configs.insert(format!("bitstream/{}/w{}", e.name(), wbits));
                let mut hs: Vec<Vec<WOp>> = vec![];
                for total in [wbits, 2 * wbits, 3 * wbits, wbits - 1, wbits + 1, 2 * wbits + 5, 7] {
                    // reach `total` bits with 64-bit pieces, with a unary code, and with a code write
                    let mut h = vec![];
                    let mut left = total;
                    while left > 0 {
                        let c = left.min(61);
                        h.push(WOp::WriteBits { v: 0x1F3A_5C77_9E21_D0B5 & ((1u64 << c) - 1), n: c as u8 });
                        left -= c;
                    }
                    hs.push(h);
                    hs.push(vec![WOp::Unary(total as u64 - 1)]);
                    hs.push(vec![WOp::WriteBits { v: 1, n: 1 }, WOp::Unary(total as u64 - 2)]);
                    hs.push(vec![WOp::Unary(total as u64 - 1), WOp::Flush, WOp::Unary(total as u64 - 1)]);
                }
                for h in &hs {
                    for backend in ["adapter", "adapter3", "adapterlazy"] {
                        for finisher in crate::wr::FINISHERS {
                            out.cov.transitions += h.len() as u64;
                            out.cov.traces_validated += 1;
                            if let Err((symptom, detail)) = crate::wrsys::check_real(e, wbits, backend, finisher, h) {
                                if out.violations.len() < 12 {
                                    out.violations.push(Violation {
                                        property: "C11".into(),
                                        system: format!("adapter-bitstream:{}:{}", backend, finisher),
                                        config: format!("{}/w{}", e.name(), wbits),
                                        op_class: "write".into(),
                                        symptom,
                                        detail: detail.chars().take(300).collect(),
                                        replay: crate::wrsys::replay_doc(e, wbits, "", backend, finisher, h),
                                    });
                                }
                            }
                        }
                    }
                }
                // a sink whose k-th call fails: whatever finishes the writer (flush, into_inner, or just
                // dropping it), either something reports the failure (an Err or a panic - a destructor has
                // no other way) or the sink holds the whole image
                for h in &hs {
                    let (mbits, _, _) = crate::wrsys::model_history(h, e, wbits);
                    let want = mbits.to_bytes(e, wbits);
                    let ncalls = want.len() / (wbits / 8) + 1;
                    for k in 0..ncalls {
                        for finisher in crate::wr::FINISHERS {
                            if finisher == "drop_unwind" {
                                // a destructor that reports a failure by panicking while the thread is already
                                // unwinding aborts the process: nothing to observe (and nothing silent about it)
                                continue;
                            }
                            let backend = format!("adapterfail:{}", k);
                            out.cov.transitions += h.len() as u64;
                            out.cov.traces_validated += 1;
                            let r = crate::wr::run_on_backend(e, wbits, &backend, finisher, h, 0);
                            let silent = match &r {
                                Err(_) => None, // the finisher reported (error or panic)
                                Ok(fo) => {
                                    if fo.obs.iter().any(|o| matches!(o, crate::wr::WObs::Err(_) | crate::wr::WObs::Panic(_))) {
                                        None
                                    } else if fo.bytes != want {
                                        Some(fo.bytes.clone())
                                    } else {
                                        None
                                    }
                                }
                            };
                            if let Some(got) = silent {
                                if out.violations.len() < 12 {
                                    out.violations.push(Violation {
                                        property: "C11".into(),
                                        system: format!("adapter-bitstream:failing-sink:{}", finisher),
                                        config: format!("{}/w{}", e.name(), wbits),
                                        op_class: "write".into(),
                                        symptom: "silent-loss".into(),
                                        detail: format!("the sink's write call #{} failed, nothing reported it, and the sink holds {} instead of {}", k, crate::util::hex(&got), crate::util::hex(&want)),
                                        replay: crate::wrsys::replay_doc(e, wbits, "", &backend, finisher, h),
                                    });
                                }
                            }
                        }
                    }
                }
                out
            }));
        }
    }
    let out = run_all(tasks, threads());
    let meta = CheckMeta {
        property: "C11".into(),
        level: "model_checking".into(),
        rule: "deviation-bounded exploration of the environment: the Read/Write wrapped by WordAdapter answers every call by an explorer choice (write: whole buffer | every short count 0..len-1 | Interrupted | hard error; flush: Ok | Err; read: as much as possible | every short count | Interrupted | hard error | EOF); ALL schedules with at most 3 (thorough 5) deviations from the default answer, for word sizes 8..128 and sequences of 1..3 words (reads: plus a partial trailing word of 0, 1, W/8-1 bytes); oracle: every write_word that returned Ok has put exactly its native-endian bytes, once and in order, into the sink; every Ok(read_word) is the next W/8 source bytes and exactly those were consumed; a partial trailing word is an error. states = schedules executed, transitions = environment calls. Plus explicit-state BFS (depth 6, thorough 7) of WordAdapter over a seekable Cursor (read_word, write_word, set_word_pos 0..6, word_pos) against a byte-vector model, starting from a stream at offset 0, from streams already positioned after 1 or 2 words, from streams with a partial trailing word (a failed read - at the ragged end, or because the source delivered part of a word and then failed hard - leaves the position unknown: only seeks continue, and must address the word they name) and from streams positioned mid-word: word_pos = words preceding the cursor after every call, seeking addresses that word. Bit streams written through the adapter over three sinks (Vec, a sink accepting 3 bytes per call, a sink that commits only on flush) with every finisher, for totals of exactly 1, 2, 3 words and off-boundary lengths, must leave exactly the memory image in the sink; the same histories over a sink whose k-th write call fails (every k, every finisher including a plain drop): something must report the failure or the sink holds the whole image; further bit streams through the adapter vs memory are part of C01 (backend 'adapter'), C02/C07 (backends 'cursor', 'bufreader')".into(),
        assumptions: vec!["the environment alphabet covers what std::io::Read/Write allow: short transfers, Interrupted, errors".into()],
    };
    (meta, out)
}

pub fn replay(doc: &Value) -> (Vec<String>, bool) {
    if doc["kind"] == "adapter-cursor" {
        return (vec![format!("cursor history (re-run C11 to re-check): {}", doc["ops"])], true);
    }
    let side = doc["side"].as_str().unwrap();
    let wbits = doc["wbits"].as_u64().unwrap() as usize;
    let nwords = doc["nwords"].as_u64().unwrap() as usize;
    let tail = doc["tail"].as_u64().unwrap_or(0) as usize;
    let choices: Vec<usize> = serde_json::from_value(doc["choices"].clone()).unwrap();
    let (pts, verdict) = if side == "write" { run_write_dyn(wbits, nwords, &choices) } else { run_read_dyn(wbits, nwords, tail, &choices) };
    let mut log: Vec<String> = pts.iter().map(|p| format!("env call {:<40} answered with choice {} of {}", p.0, p.2, p.1)).collect();
    match &verdict {
        Ok(()) => log.push("oracle: ok".into()),
        Err(m) => log.push(format!("oracle: VIOLATED: {}", m)),
    }
    (log, verdict.is_err())
}
