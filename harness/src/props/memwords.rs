//! C13: in-memory word streams behave as an array plus a cursor.
//! Explicit-state BFS over the real objects (rebuilt by replay: the writers are not
//! Clone) against a Vec + cursor model, and the same system under stateright's BFS
//! checker as an independent second engine (unique state counts must agree).

use crate::pool::{run_all, threads, Task};
use crate::report::{CheckMeta, Outcome, Violation};
use crate::Ctx;
use dsi_bitstream::prelude::*;
use serde::{Deserialize, Serialize};
use serde_json::json;
use std::collections::{HashMap, VecDeque};

#[derive(Clone, Copy, Debug, PartialEq, Eq, Hash, Serialize, Deserialize)]
pub enum Op {
    Read,
    Write(u8), // letter index 0,1,2 -> 0, 1, MAX
    Pos,
    SetPos(u64),
    Len,
    /// readers: replace the object by its clone (must be the same array and cursor)
    Clone,
    /// writers: WordWrite::flush (must change nothing observable)
    Flush,
    /// writers: is_empty() (1 iff the ARRAY has no words, wherever the cursor is)
    IsEmpty,
}

#[derive(Clone, Debug, PartialEq, Eq, Hash, Serialize, Deserialize)]
pub enum Obs {
    Word(u128),
    Unit,
    Num(u64),
    Err,
    Na,
    Panic,
}

pub const KINDS: [&str; 4] = ["reader-zx", "reader-strict", "slice", "vec"];
pub const GROW_CAP: usize = 5;

#[derive(Clone, Debug, PartialEq, Eq, Hash)]
pub struct MState {
    pub data: Vec<u128>,
    pub cur: u64,
}

fn letter(i: u8, wbits: usize) -> u128 {
    match i {
        0 => 0,
        1 => 1,
        _ => {
            if wbits == 128 {
                u128::MAX
            } else {
                (1u128 << wbits) - 1
            }
        }
    }
}

/// Model step: None = operation not issued in this state (outside the alphabet).
pub fn model_step(kind: &str, wbits: usize, s: &MState, op: Op) -> Option<(Obs, MState)> {
    let len = s.data.len() as u64;
    let mut n = s.clone();
    let obs = match op {
        Op::Read => match kind {
            "reader-zx" => {
                if s.cur > len + 3 {
                    return None; // keep the space finite
                }
                let w = s.data.get(s.cur as usize).copied().unwrap_or(0);
                n.cur += 1;
                Obs::Word(w)
            }
            _ => {
                if s.cur < len {
                    n.cur += 1;
                    Obs::Word(s.data[s.cur as usize])
                } else {
                    Obs::Err
                }
            }
        },
        Op::Write(l) => match kind {
            "reader-zx" | "reader-strict" => return None,
            "slice" => {
                if s.cur < len {
                    n.data[s.cur as usize] = letter(l, wbits);
                    n.cur += 1;
                    Obs::Unit
                } else {
                    Obs::Err
                }
            }
            _ => {
                if s.cur >= len {
                    if s.data.len() >= GROW_CAP {
                        return None;
                    }
                    n.data.resize(s.cur as usize + 1, 0);
                }
                n.data[s.cur as usize] = letter(l, wbits);
                n.cur += 1;
                Obs::Unit
            }
        },
        Op::Pos => Obs::Num(s.cur),
        Op::SetPos(p) => match kind {
            "reader-zx" => {
                n.cur = p;
                Obs::Unit
            }
            _ => {
                if p > len {
                    Obs::Err
                } else {
                    n.cur = p;
                    Obs::Unit
                }
            }
        },
        Op::Len => match kind {
            "slice" | "vec" => Obs::Num(len),
            _ => return None,
        },
        Op::Clone => match kind {
            "reader-zx" | "reader-strict" => Obs::Unit,
            _ => return None,
        },
        Op::Flush => match kind {
            "slice" | "vec" => Obs::Unit,
            _ => return None,
        },
        Op::IsEmpty => match kind {
            "slice" | "vec" => Obs::Num((len == 0) as u64),
            _ => return None,
        },
    };
    Some((obs, n))
}

pub fn alphabet(len_now: usize) -> Vec<Op> {
    let mut a = vec![Op::Read, Op::Write(0), Op::Write(1), Op::Write(2), Op::Pos, Op::Len, Op::Clone, Op::Flush, Op::IsEmpty];
    for p in 0..=(len_now as u64 + 2) {
        a.push(Op::SetPos(p));
    }
    a.push(Op::SetPos(1 << 40));
    // far positions: high bits set, low bits small (a bounds check that loses high bits would accept them)
    for hi in [1u64 << 63, 1 << 62, (1 << 61) + (1 << 60), 0xA000_0000_0000_0000, 1 << 60, 1 << 59, 1 << 48] {
        for lo in 0..=(len_now as u64 + 1) {
            a.push(Op::SetPos(hi + lo));
        }
    }
    a
}

/// Execute a history on the real object (a panic inside the library becomes an observation).
pub fn run_real(kind: &str, wbits: usize, borrowed: bool, init: &[u128], ops: &[Op]) -> (Vec<Obs>, Vec<u128>, String) {
    match std::panic::catch_unwind(|| run_real_inner(kind, wbits, borrowed, init, ops)) {
        Ok(x) => x,
        Err(_) => (vec![Obs::Panic; ops.len().max(1)], vec![], "<panicked>".into()),
    }
}

fn run_real_inner(kind: &str, wbits: usize, borrowed: bool, init: &[u128], ops: &[Op]) -> (Vec<Obs>, Vec<u128>, String) {
    macro_rules! drive {
        ($obj:expr, $W:ty, $can_write:tt, $has_len:tt) => {{
            let mut o = $obj;
            let mut obs = vec![];
            for op in ops {
                let r = match *op {
                    Op::Read => match o.read_word() {
                        Ok(w) => Obs::Word(w as u128),
                        Err(_) => Obs::Err,
                    },
                    Op::Write(l) => drive!(@write $can_write, o, l, $W),
                    Op::Pos => match o.word_pos() {
                        Ok(p) => Obs::Num(p),
                        Err(_) => Obs::Err,
                    },
                    Op::SetPos(p) => match o.set_word_pos(p) {
                        Ok(()) => Obs::Unit,
                        Err(_) => Obs::Err,
                    },
                    Op::Len => drive!(@len $has_len, o),
                    Op::Clone => drive!(@clone $can_write, o),
                    Op::Flush => drive!(@flush $can_write, o),
                    Op::IsEmpty => drive!(@isempty $has_len, o),
                };
                obs.push(r);
            }
            let key = format!("{:?}", o);
            (obs, o, key)
        }};
        (@write yes, $o:ident, $l:ident, $W:ty) => {
            match $o.write_word(letter($l, wbits) as $W) {
                Ok(()) => Obs::Unit,
                Err(_) => Obs::Err,
            }
        };
        (@write no, $o:ident, $l:ident, $W:ty) => {{
            let _ = $l;
            Obs::Na
        }};
        (@clone no, $o:ident) => {{
            $o = $o.clone();
            Obs::Unit
        }};
        (@clone yes, $o:ident) => {
            Obs::Na
        };
        (@flush yes, $o:ident) => {
            match $o.flush() {
                Ok(()) => Obs::Unit,
                Err(_) => Obs::Err,
            }
        };
        (@flush no, $o:ident) => {
            Obs::Na
        };
        (@isempty yes, $o:ident) => {
            Obs::Num($o.is_empty() as u64)
        };
        (@isempty no, $o:ident) => {
            Obs::Na
        };
        (@len yes, $o:ident) => {
            Obs::Num($o.len() as u64)
        };
        (@len no, $o:ident) => {
            Obs::Na
        };
    }
    macro_rules! one {
        ($W:ty) => {{
            let data: Vec<$W> = init.iter().map(|&x| x as $W).collect();
            let back = |v: &[$W]| -> Vec<u128> { v.iter().map(|&x| x as u128).collect() };
            match (kind, borrowed) {
                ("reader-zx", false) => {
                    let (obs, o, key) = drive!(MemWordReader::<$W, Vec<$W>>::new(data), $W, no, no);
                    (obs, back(&o.into_inner()), key)
                }
                ("reader-zx", true) => {
                    let (obs, _o, key) = drive!(MemWordReader::<$W, &[$W]>::new(&data[..]), $W, no, no);
                    (obs, back(&data), key)
                }
                ("reader-strict", false) => {
                    let d2 = data.clone();
                    let (obs, _o, key) = drive!(MemWordReader::<$W, Vec<$W>, false>::new_strict(data), $W, no, no);
                    (obs, back(&d2), key)
                }
                ("reader-strict", true) => {
                    let (obs, _o, key) = drive!(MemWordReader::<$W, &[$W], false>::new_strict(&data[..]), $W, no, no);
                    (obs, back(&data), key)
                }
                ("slice", false) => {
                    let (obs, o, key) = drive!(MemWordWriterSlice::<$W, Vec<$W>>::new(data), $W, yes, yes);
                    (obs, back(&o.into_inner()), key)
                }
                ("slice", true) => {
                    let mut data = data;
                    let (obs, key) = {
                        let (obs, _o, key) = drive!(MemWordWriterSlice::<$W, &mut [$W]>::new(&mut data[..]), $W, yes, yes);
                        (obs, key)
                    };
                    (obs, back(&data), key)
                }
                ("vec", false) => {
                    let (obs, o, key) = drive!(MemWordWriterVec::<$W, Vec<$W>>::new(data), $W, yes, yes);
                    (obs, back(&o.into_inner()), key)
                }
                ("vec", true) => {
                    let mut data = data;
                    let (obs, key) = {
                        let (obs, _o, key) = drive!(MemWordWriterVec::<$W, &mut Vec<$W>>::new(&mut data), $W, yes, yes);
                        (obs, key)
                    };
                    (obs, back(&data), key)
                }
                _ => unreachable!(),
            }
        }};
    }
    match wbits {
        8 => one!(u8),
        16 => one!(u16),
        32 => one!(u32),
        64 => one!(u64),
        128 => one!(u128),
        _ => unreachable!(),
    }
}

fn all_inits(wbits: usize, maxlen: usize) -> Vec<Vec<u128>> {
    let mut out = vec![vec![]];
    let mut cur: Vec<Vec<u128>> = vec![vec![]];
    for _ in 0..maxlen {
        let mut nx = vec![];
        for a in &cur {
            for l in 0..3u8 {
                let mut b = a.clone();
                b.push(letter(l, wbits));
                nx.push(b);
            }
        }
        out.extend(nx.iter().cloned());
        cur = nx;
    }
    out
}

/// BFS from one initial array; returns the number of unique states.
pub fn bfs_one(kind: &'static str, wbits: usize, borrowed: bool, init: &[u128], out: &mut Outcome) -> usize {
    let cfg = format!("{}/w{}/{}", kind, wbits, if borrowed { "borrowed" } else { "owned" });
    out.cov.configs.insert(cfg.clone());
    let mut seen: HashMap<(String, MState), ()> = HashMap::new();
    // distinct MODEL states: this is what is compared with the second engine (the number of distinct
    // concrete keys may legitimately differ if the implementation carries extra internal state)
    let mut mstates: std::collections::HashSet<MState> = std::collections::HashSet::new();
    let mut q: VecDeque<(Vec<Op>, MState)> = VecDeque::new();
    let s0 = MState { data: init.to_vec(), cur: 0 };
    let (_, fin, key) = run_real(kind, wbits, borrowed, init, &[]);
    if fin != init {
        out.violations.push(Violation {
            property: "C13".into(),
            system: "memwords".into(),
            config: cfg.clone(),
            op_class: "into_inner".into(),
            symptom: "contents".into(),
            detail: "fresh object does not hold its initial contents".into(),
            replay: json!({"kind": "memwords", "wkind": kind, "wbits": wbits, "borrowed": borrowed, "init": init.iter().map(|x| x.to_string()).collect::<Vec<_>>(), "ops": Vec::<Op>::new()}),
        });
    }
    seen.insert((key, s0.clone()), ());
    mstates.insert(s0.clone());
    q.push_back((vec![], s0));
    let mut sampled = false;
    while let Some((path, ms)) = q.pop_front() {
        out.cov.states += 1;
        out.cov.max_depth = out.cov.max_depth.max(path.len() as u64);
        for op in alphabet(ms.data.len()) {
            let (mobs, mnext) = match model_step(kind, wbits, &ms, op) {
                Some(x) => x,
                None => continue,
            };
            let mut p2 = path.clone();
            p2.push(op);
            let (obs, fin, key) = run_real(kind, wbits, borrowed, init, &p2);
            out.cov.transitions += 1;
            out.cov.traces_validated += 1;
            if !path.is_empty() {
                out.cov.nontrivial += 1;
            }
            out.cov.observe(&format!("{:?}", op).split('(').next().unwrap().to_lowercase(), crate::util::fnv(format!("{:?}", obs.last()).as_bytes()));
            let last = obs.last().unwrap();
            let mut fail: Option<(&str, String)> = None;
            if *last != mobs {
                fail = Some(("value", format!("{:?} returned {:?}, the array+cursor model says {:?}", op, last, mobs)));
            } else if fin != mnext.data {
                fail = Some(("contents", format!("after {:?} the contents are {:?}, expected {:?}", op, fin, mnext.data)));
            } else {
                // the cursor must be where the model says (error leaves it unchanged): observe it with word_pos
                let mut p3 = p2.clone();
                p3.push(Op::Pos);
                let (o3, _, _) = run_real(kind, wbits, borrowed, init, &p3);
                if *o3.last().unwrap() != Obs::Num(mnext.cur) {
                    fail = Some(("position", format!("after {:?} word_pos() is {:?}, expected {}", op, o3.last().unwrap(), mnext.cur)));
                }
            }
            if let Some((sym, det)) = fail {
                if out.violations.len() < 30 {
                    out.violations.push(Violation {
                        property: "C13".into(),
                        system: "memwords".into(),
                        config: cfg.clone(),
                        op_class: format!("{:?}", op).split('(').next().unwrap().to_lowercase(),
                        symptom: sym.into(),
                        detail: format!("init {:?}, after {:?}: {}", init, path, det),
                        replay: json!({"kind": "memwords", "wkind": kind, "wbits": wbits, "borrowed": borrowed, "init": init.iter().map(|x| x.to_string()).collect::<Vec<_>>(), "ops": p2}),
                    });
                }
                continue;
            }
            mstates.insert(mnext.clone());
            if seen.insert((key, mnext.clone()), ()).is_none() {
                q.push_back((p2, mnext));
            }
        }
        if !sampled && path.len() >= 3 {
            sampled = true;
            out.cov.sample(json!({"config": cfg, "init": init.iter().map(|x| x.to_string()).collect::<Vec<_>>(), "history": path, "model_state": format!("{:?}", ms)}));
        }
    }
    mstates.len()
}

// ---- the same system under stateright (second engine)

#[derive(Clone)]
struct SrModel {
    kind: &'static str,
    wbits: usize,
    init: Vec<u128>,
}

impl stateright::Model for SrModel {
    type State = (Vec<u128>, u64);
    type Action = Op;
    fn init_states(&self) -> Vec<Self::State> {
        vec![(self.init.clone(), 0)]
    }
    fn actions(&self, state: &Self::State, actions: &mut Vec<Self::Action>) {
        let ms = MState { data: state.0.clone(), cur: state.1 };
        for op in alphabet(state.0.len()) {
            if model_step(self.kind, self.wbits, &ms, op).is_some() {
                actions.push(op);
            }
        }
    }
    fn next_state(&self, last: &Self::State, action: Self::Action) -> Option<Self::State> {
        // rebuild the REAL object from the snapshot (contents + set_word_pos), apply the action, snapshot again
        let ops = [Op::SetPos(last.1), action, Op::Pos];
        let (obs, fin, _) = run_real(self.kind, self.wbits, false, &last.0, &ops);
        let cur = match obs[2] {
            Obs::Num(p) => p,
            _ => u64::MAX,
        };
        Some((fin, cur))
    }
    fn properties(&self) -> Vec<stateright::Property<Self>> {
        vec![stateright::Property::<Self>::always("real object agrees with array+cursor model", |m, s| {
            // every successor computed on the real object must equal the model's successor
            let ms = MState { data: s.0.clone(), cur: s.1 };
            for op in alphabet(s.0.len()) {
                if let Some((mobs, mnext)) = model_step(m.kind, m.wbits, &ms, op) {
                    let (obs, fin, _) = run_real(m.kind, m.wbits, false, &s.0, &[Op::SetPos(s.1), op, Op::Pos]);
                    if obs[1] != mobs || fin != mnext.data || obs[2] != Obs::Num(mnext.cur) {
                        return false;
                    }
                }
            }
            true
        })]
    }
}

fn stateright_count(kind: &'static str, wbits: usize, init: &[u128]) -> (usize, bool) {
    use stateright::{Checker, Model};
    let m = SrModel { kind, wbits, init: init.to_vec() };
    let c = m.checker().threads(1).spawn_bfs().join();
    let ok = c.discoveries().is_empty();
    (c.unique_state_count(), ok)
}

pub fn c13(ctx: &Ctx) -> (CheckMeta, Outcome) {
    let mut tasks: Vec<Task> = vec![];
    let maxlen = if ctx.thorough { 4 } else { 3 };
    for kind in KINDS {
        for wbits in [8usize, 16, 32, 64, 128] {
            for borrowed in [false, true] {
                let thorough = ctx.thorough;
                tasks.push(Box::new(move || {
                    let mut out = Outcome::new();
                    let inits = all_inits(wbits, maxlen);
                    for (i, init) in inits.iter().enumerate() {
                        // quick: every array of length <= 2 and a third of those of length 3
                        let _ = (thorough, i);
                        let n = bfs_one(kind, wbits, borrowed, init, &mut out);
                        // second engine on owned storage, every array of length <= 2 (thorough: all)
                        if !borrowed && (init.len() <= 2 || thorough) && out.violations.is_empty() {
                            let (sr, ok) = stateright_count(kind, wbits, init);
                            out.cov.add_extra("stateright_runs", 1);
                            out.cov.add_extra("stateright_unique_states", sr as u64);
                            if sr != n || !ok {
                                out.violations.push(Violation {
                                    property: "C13".into(),
                                    system: "memwords-stateright".into(),
                                    config: format!("{}/w{}", kind, wbits),
                                    op_class: "engine-cross-check".into(),
                                    symptom: if ok { "state-count".into() } else { "value".into() },
                                    detail: format!("init {:?}: my explorer reached {} states, stateright {} (properties hold: {})", init, n, sr, ok),
                                    replay: json!({"kind": "memwords", "wkind": kind, "wbits": wbits, "borrowed": false, "init": init.iter().map(|x| x.to_string()).collect::<Vec<_>>(), "ops": Vec::<Op>::new()}),
                                });
                            }
                        }
                    }
                    out
                }));
            }
        }
    }
    let mut out = run_all(tasks, threads());
    // one long history: a zero-extended reader keeps yielding zeros (and counting) far beyond the end
    if crate::pool::is_primary() {
        let n: usize = if ctx.thorough { 5_000_000 } else { 300_000 };
        for wbits in [8usize, 64, 128] {
            for borrowed in [false, true] {
                let ops: Vec<Op> = (0..n).map(|_| Op::Read).chain([Op::Pos]).collect();
                let (obs, fin, _) = run_real("reader-zx", wbits, borrowed, &[1, 0], &ops);
                out.cov.transitions += n as u64;
                let bad = obs.iter().take(n).enumerate().find(|(i, o)| **o != Obs::Word(if *i == 0 { 1 } else { 0 }));
                if let Some((i, o)) = bad {
                    out.violations.push(Violation {
                        property: "C13".into(),
                        system: "memwords".into(),
                        config: format!("reader-zx/w{}/long-run", wbits),
                        op_class: "read".into(),
                        symptom: "value".into(),
                        detail: format!("read #{} beyond the end returned {:?}", i, o),
                        replay: json!({"kind": "none"}),
                    });
                } else if obs[n] != Obs::Num(n as u64) || fin != vec![1, 0] {
                    out.violations.push(Violation {
                        property: "C13".into(),
                        system: "memwords".into(),
                        config: format!("reader-zx/w{}/long-run", wbits),
                        op_class: "pos".into(),
                        symptom: "position".into(),
                        detail: format!("after {} reads word_pos is {:?}", n, obs[n]),
                        replay: json!({"kind": "none"}),
                    });
                }
            }
        }
    }
    // arrays of more than 2^32 words (8-bit words over lazily mapped zero pages): positions and
    // contents around word index 2^32 on all four stream types
    if crate::pool::is_primary() {
        huge_arrays(&mut out);
    }
    let meta = CheckMeta {
        property: "C13".into(),
        level: "model_checking".into(),
        rule: "explicit-state BFS to the fixpoint over the REAL objects (MemWordReader zero-extended and strict, MemWordWriterSlice, MemWordWriterVec; word types u8..u128; owned and borrowed storage), rebuilt by replaying the shortest history; initial arrays: every array of length 0..=3 (thorough 0..=4) over the letters {0, 1, MAX}; operations read_word, write_word(letter), word_pos, set_word_pos(0..=len+2, 2^40 and 7 far positions with high bits set + 0..=len+1), len, is_empty, clone (readers: the clone replaces the object) and WordWrite::flush (writers); one long history of 300 000 (thorough 5 000 000) reads past the end of the zero-extended reader; all four stream types over an array of 2^32+8 one-byte words (zero pages, mapped lazily; skipped with a note if the allocation is refused): seeks, reads, writes and positions around word index 2^32; vector growth capped at 5 words and zero-extended reads at len+3 to close the space; every return value, the final contents (into_inner / the borrowed storage) and the cursor (word_pos) after every transition vs a Vec+cursor model (errors leave the cursor unchanged); the same transition system is run under stateright's BFS checker with real objects rebuilt from state snapshots and the number of distinct model states reached by the two engines must agree".into(),
        assumptions: vec!["cursor values at usize::MAX are outside the alphabet (as in the library's own fuzz harness)".into()],
    };
    (meta, out)
}

pub fn replay(doc: &serde_json::Value) -> (Vec<String>, bool) {
    let kind = crate::rdsys::leak(doc["wkind"].as_str().unwrap());
    let wbits = doc["wbits"].as_u64().unwrap() as usize;
    let borrowed = doc["borrowed"].as_bool().unwrap();
    let init: Vec<u128> = doc["init"].as_array().unwrap().iter().map(|x| x.as_str().unwrap().parse().unwrap()).collect();
    let ops: Vec<Op> = serde_json::from_value(doc["ops"].clone()).unwrap();
    let (obs, fin, _) = run_real(kind, wbits, borrowed, &init, &ops);
    let mut ms = MState { data: init.clone(), cur: 0 };
    let mut log = vec![format!("{} w{} borrowed={} init {:?}", kind, wbits, borrowed, init)];
    let mut failed = false;
    for (i, op) in ops.iter().enumerate() {
        match model_step(kind, wbits, &ms, *op) {
            Some((mobs, mn)) => {
                let ok = obs[i] == mobs;
                log.push(format!("{:?}: real {:?} model {:?} {}", op, obs[i], mobs, if ok { "ok" } else { "MISMATCH" }));
                failed |= !ok;
                ms = mn;
            }
            None => log.push(format!("{:?}: outside the model alphabet", op)),
        }
    }
    if fin != ms.data {
        log.push(format!("final contents {:?} expected {:?}", fin, ms.data));
        failed = true;
    }
    let mut p = ops.clone();
    p.push(Op::Pos);
    let (o2, _, _) = run_real(kind, wbits, borrowed, &init, &p);
    if *o2.last().unwrap() != Obs::Num(ms.cur) {
        log.push(format!("final cursor {:?} expected {}", o2.last().unwrap(), ms.cur));
        failed = true;
    }
    (log, failed)
}


/// A zeroed byte vector of `n` bytes obtained with alloc_zeroed (the pages are mapped lazily, so only
/// what is touched costs memory); None if the allocator refuses.
fn lazy_zeroed(n: usize) -> Option<Vec<u8>> {
    let layout = std::alloc::Layout::array::<u8>(n).ok()?;
    // SAFETY: layout has non-zero size; a null return is handled; the Vec takes ownership of an
    // allocation made with the global allocator with exactly this layout, fully initialised (zeros)
    unsafe {
        let p = std::alloc::alloc_zeroed(layout);
        if p.is_null() {
            return None;
        }
        Some(Vec::from_raw_parts(p, n, n))
    }
}

fn huge_arrays(out: &mut Outcome) {
    const T: u64 = 1 << 32;
    let n = (T + 8) as usize;
    let cfgname = |k: &str| format!("{}/w8/huge-array", k);
    let mut report = |out: &mut Outcome, kind: &str, op: &str, sym: &str, d: String| {
        out.violations.push(Violation { property: "C13".into(), system: "memwords".into(), config: cfgname(kind), op_class: op.into(), symptom: sym.into(), detail: d, replay: json!({"kind": "none", "note": "array of 2^32+8 bytes; re-run the check"}) });
    };
    let mut base = match lazy_zeroed(n) {
        Some(v) => v,
        None => {
            out.cov.notes.push("huge-array section skipped: the allocator refused 2^32+8 bytes".into());
            return;
        }
    };
    for (i, b) in [(T - 1, 0x11u8), (T, 0x22), (T + 1, 0x33), (T + 3, 0x44), (T + 7, 0x55), (3, 0x66)] {
        base[i as usize] = b;
    }
    let expect_at = |i: u64| -> u8 {
        match i {
            x if x == T - 1 => 0x11,
            x if x == T => 0x22,
            x if x == T + 1 => 0x33,
            x if x == T + 3 => 0x44,
            x if x == T + 7 => 0x55,
            3 => 0x66,
            _ => 0,
        }
    };
    // readers (borrowed storage: the same array serves both)
    macro_rules! reader {
        ($kind:expr, $obj:expr, $strict:expr) => {{
            out.cov.configs.insert(cfgname($kind));
            let r = std::panic::catch_unwind(std::panic::AssertUnwindSafe(|| -> Result<(), (String, String, String)> {
                let mut o = $obj;
                for p in [T - 1, T, T + 1, T + 3, T + 7, 3, T + 2] {
                    o.set_word_pos(p).map_err(|e| ("setpos".to_string(), "error".to_string(), format!("set_word_pos({}) inside an array of {} words failed: {}", p, n, e)))?;
                    let q = o.word_pos().unwrap();
                    if q != p {
                        return Err(("setpos".into(), "position".into(), format!("after set_word_pos({}) word_pos() = {}", p, q)));
                    }
                    let w = o.read_word().map_err(|e| ("read".to_string(), "error".to_string(), format!("read_word at {} failed: {}", p, e)))?;
                    if w != expect_at(p) {
                        return Err(("read".into(), "value".into(), format!("read_word at {} returned {:#x}, the array holds {:#x}", p, w, expect_at(p))));
                    }
                    let q = o.word_pos().unwrap();
                    if q != p + 1 {
                        return Err(("read".into(), "position".into(), format!("after reading word {} word_pos() = {}", p, q)));
                    }
                    out.cov.transitions += 4;
                }
                // the end of the array
                o.set_word_pos(n as u64).map_err(|e| ("setpos".to_string(), "error".to_string(), format!("set_word_pos(len) failed: {}", e)))?;
                let r = o.read_word();
                if $strict {
                    if r.is_ok() {
                        return Err(("read".into(), "no-error".into(), "read_word at the end of the strict reader returned a word".into()));
                    }
                    if o.word_pos().unwrap() != n as u64 {
                        return Err(("read".into(), "position".into(), "a failed read moved the cursor".into()));
                    }
                    if o.set_word_pos(n as u64 + 1).is_ok() {
                        return Err(("setpos".into(), "no-error".into(), "set_word_pos(len+1) accepted by the strict reader".into()));
                    }
                    if o.word_pos().unwrap() != n as u64 {
                        return Err(("setpos".into(), "position".into(), "a rejected set_word_pos moved the cursor".into()));
                    }
                } else if r.ok() != Some(0) {
                    return Err(("read".into(), "value".into(), "read_word beyond the end of the zero-extended reader is not zero".into()));
                }
                out.cov.transitions += 4;
                Ok(())
            }));
            match r {
                Ok(Ok(())) => {}
                Ok(Err((op, sym, d))) => report(out, $kind, &op, &sym, d),
                Err(p) => report(out, $kind, "any", "panic", crate::util::panic_msg(&p)),
            }
        }};
    }
    reader!("reader-zx", MemWordReader::<u8, &[u8]>::new(&base[..]), false);
    reader!("reader-strict", MemWordReader::<u8, &[u8], false>::new_strict(&base[..]), true);
    // writers (borrowed storage): overwrite around 2^32, positions, len
    macro_rules! writer {
        ($kind:expr, $mk:expr) => {{
            out.cov.configs.insert(cfgname($kind));
            let r = std::panic::catch_unwind(std::panic::AssertUnwindSafe(|| -> Result<(), (String, String, String)> {
                let mut o = $mk;
                if o.len() != n {
                    return Err(("len".into(), "value".into(), format!("len() = {} for an array of {} words", o.len(), n)));
                }
                for (p, v) in [(T - 1, 0x91u8), (T + 2, 0x92), (T + 7, 0x93)] {
                    o.set_word_pos(p).map_err(|e| ("setpos".to_string(), "error".to_string(), format!("set_word_pos({}) failed: {}", p, e)))?;
                    o.write_word(v).map_err(|e| ("write".to_string(), "error".to_string(), format!("write_word at {} failed: {}", p, e)))?;
                    let q = o.word_pos().unwrap();
                    if q != p + 1 {
                        return Err(("write".into(), "position".into(), format!("after writing word {} word_pos() = {}", p, q)));
                    }
                    out.cov.transitions += 3;
                }
                o.set_word_pos(T).map_err(|e| ("setpos".to_string(), "error".to_string(), format!("{e}")))?;
                let w = o.read_word().map_err(|e| ("read".to_string(), "error".to_string(), format!("{e}")))?;
                if w != 0x22 {
                    return Err(("read".into(), "value".into(), format!("word 2^32 reads {:#x} after writes to its neighbours", w)));
                }
                if o.len() != n {
                    return Err(("len".into(), "value".into(), format!("len() = {} after overwriting inside an array of {} words", o.len(), n)));
                }
                Ok(())
            }));
            match r {
                Ok(Ok(())) => {}
                Ok(Err((op, sym, d))) => report(out, $kind, &op, &sym, d),
                Err(p) => report(out, $kind, "any", "panic", crate::util::panic_msg(&p)),
            }
        }};
    }
    writer!("slice", MemWordWriterSlice::<u8, &mut [u8]>::new(&mut base[..]));
    for (i, want) in [(T - 1, 0x91u8), (T, 0x22), (T + 1, 0x33), (T + 2, 0x92), (T + 7, 0x93)] {
        if base[i as usize] != want {
            report(out, "slice", "write", "contents", format!("byte {} of the array is {:#x}, expected {:#x}", i, base[i as usize], want));
        }
    }
    base[(T - 1) as usize] = 0x11;
    base[(T + 2) as usize] = 0;
    base[(T + 7) as usize] = 0x55;
    writer!("vec", MemWordWriterVec::<u8, &mut Vec<u8>>::new(&mut base));
    if base.len() != n {
        report(out, "vec", "write", "contents", format!("the vector has {} words after overwriting inside {} words", base.len(), n));
    } else {
        for (i, want) in [(T - 1, 0x91u8), (T, 0x22), (T + 1, 0x33), (T + 2, 0x92), (T + 7, 0x93)] {
            if base[i as usize] != want {
                report(out, "vec", "write", "contents", format!("byte {} of the vector is {:#x}, expected {:#x}", i, base[i as usize], want));
            }
        }
    }
    out.cov.evaluations += 4;
}
