//! Premise of C05: which tables a reader type may use is decided by the library's own
//! construction-time diagnostic.  A child process constructs one reader of every kind
//! and the parent parses its stderr.

use crate::model::End;
use std::collections::BTreeMap;

pub fn child() {
    for kind in crate::rd::KINDS {
        eprintln!("@@KIND {}", kind);
        let img = vec![0u8; 16];
        let _ = crate::rd::make_reader(End::BE, kind, "memzx", "", &img);
        eprintln!("@@END");
    }
}

pub fn probe() -> BTreeMap<String, [bool; 3]> {
    let exe = std::env::current_exe().expect("current_exe");
    let out = std::process::Command::new(exe).arg("probe-diag").output().expect("spawn probe-diag");
    let text = String::from_utf8_lossy(&out.stderr).to_string();
    let mut m = BTreeMap::new();
    let mut cur: Option<String> = None;
    for line in text.lines() {
        if let Some(k) = line.strip_prefix("@@KIND ") {
            cur = Some(k.to_string());
            m.insert(k.to_string(), [true; 3]);
        } else if line.starts_with("@@END") {
            cur = None;
        } else if let Some(k) = &cur {
            let e = m.get_mut(k).unwrap();
            // the library names the table in the message
            if line.contains("γ") {
                e[0] = false;
            }
            if line.contains("δ") {
                e[1] = false;
            }
            if line.contains("ζ") {
                e[2] = false;
            }
        }
    }
    if m.len() != crate::rd::KINDS.len() {
        println!("MACHINERY: diagnostic probe failed: {}", text);
        std::process::exit(3);
    }
    m
}
