//! C02 / C07 / C09 / C12(read) / C05(3): reader state spaces.

use crate::images::images;
use crate::model::{Bits, End};
use crate::pool::{run_all, threads, Task};
use crate::rd::*;
use crate::rdsys::*;
use crate::report::{CheckMeta, Outcome};
use crate::Ctx;

pub fn base_alphabet(info_word: usize, peek_max: usize) -> Vec<ROp> {
    let w = info_word;
    let mut a = vec![];
    for n in 0..=64u8 {
        a.push(ROp::ReadBits(n));
    }
    for n in 1..=peek_max as u8 {
        a.push(ROp::Peek(n));
    }
    for n in 0..=(2 * w + 1) as u16 {
        a.push(ROp::Skip(n));
    }
    a.push(ROp::Skip(3 * w as u16));
    a.push(ROp::Skip(3 * w as u16 + 1));
    a.push(ROp::Unary);
    a
}

fn kind_word(kind: &str) -> (usize, usize) {
    match kind {
        "buf8" => (8, 8),
        "buf16" => (16, 16),
        "buf32" => (32, 32),
        "buf64" => (64, 64),
        _ => (64, 32),
    }
}

pub fn c02(ctx: &Ctx) -> (CheckMeta, Outcome) {
    let nbits = if ctx.thorough { 640 } else { 384 };
    let mut tasks: Vec<Task> = vec![];
    for e in End::BOTH {
        for kind in KINDS {
            for backend in BACKENDS {
                let diag = ctx.diag[kind];
                let seed = ctx.seed;
                let thorough = ctx.thorough;
                tasks.push(Box::new(move || {
                    let mut out = Outcome::new();
                    let (w, pk) = kind_word(kind);
                    let mut alphabet = base_alphabet(w, pk);
                    // byte reads through the io::Read view share the buffer with everything else: what they
                    // return is C12's subject, what they leave behind for the next fixed-width read is this one's
                    for n in [1u16, 2, 8, 9, 17] {
                        alphabet.push(ROp::IoRead(n));
                    }
                    for img in images(e, nbits, seed, thorough) {
                        let model = RdModel { bits: Bits::from_bytes(&img.bytes, e), e, zx: backend == "memzx", limit: nbits + 160, tables_ok: diag };
                        let rd = make_reader(e, kind, backend, "", &img.bytes);
                        let run = RdRun { property: "C02", model: &model, image: &img.bytes, alphabet: &alphabet, max_states: 40_000, check_counter: false, max_depth: 0 };
                        out.merge(explore(&run, rd));
                    }
                    out
                }));
            }
        }
    }
    let mut out = run_all(tasks, threads());
    out.merge(c02_long_zero_extension(ctx));
    out.merge(all_small_images("C02", ctx));
    out.merge(crate::props::huge::read_huge("C02", ctx));
    if crate::pool::is_primary() {
        crate::props::writers::native_alias("C02", &mut out);
    }
    let meta = CheckMeta {
        property: "C02".into(),
        level: "model_checking".into(),
        rule: "breadth-first exploration to the fixpoint of the real reader object (exact Debug-string state identity) for every (endianness, reader kind, backend, image); alphabet read_bits 0..=64, peek 1..=max twice, skip 0..=2W+1,3W,3W+1, read_unary, io::Read of 1,2,8,9,17 bytes; every transition compared with the bit-vector model (value, advance, bit_pos); a failed peek on a strict backend must leave the reader intact (the state continues); plus one long history per zero-extended reader: 140 000 (thorough 3 000 000) 64-bit reads/skips past the end must all see zeros; plus the small-scope section: EVERY one of the 2^16 two-byte streams (two words of a u8 reader; thorough also one word of a u16 reader; strict and zero-extended memory backends, both endiannesses) explored to the fixpoint with read_bits {1,2,3,7,8,9,16}, peeks, skips, unary and table-free gamma/delta/omega/zeta3/Golomb3 reads (thorough: read_bits 0..=17, every peek width, every skip 0..=17, all code variants incl. tables where the look-ahead suffices) - no choice of data values is involved there; plus read_unary and skip_bits of about 2^32 and more bits over a synthetic sparse word source; distinct_nontrivial counts transitions that start in a state reached through at least one earlier operation".into(),
        assumptions: vec!["reference model = canonical layout of C01 (harness/src/model.rs)".into(), "little-endian 64-bit host".into()],
    };
    (meta, out)
}

pub fn reduced_alphabet(w: usize, pk: usize) -> Vec<ROp> {
    let mut a = vec![];
    let mut ns: Vec<usize> = vec![0, 1, 2, 7, 8, 9, w - 1, w, w + 1, 31, 32, 33, 63, 64];
    ns.sort();
    ns.dedup();
    for n in ns {
        if n <= 64 {
            a.push(ROp::ReadBits(n as u8));
        }
    }
    let mut ps: Vec<usize> = vec![1, 2, pk / 2, pk - 1, pk, 9, 12];
    ps.sort();
    ps.dedup();
    for n in ps {
        if n >= 1 && n <= pk {
            a.push(ROp::Peek(n as u8));
        }
    }
    let mut ss: Vec<usize> = vec![0, 1, w - 1, w, w + 1, 2 * w, 2 * w + 1];
    ss.sort();
    ss.dedup();
    for n in ss {
        a.push(ROp::Skip(n as u16));
    }
    a.push(ROp::Unary);
    a
}

pub fn code_ops() -> Vec<ROp> {
    use crate::model::Code;
    let mut a = vec![];
    for c in [Code::Gamma, Code::Delta, Code::Zeta(3), Code::Zeta(2), Code::Omega, Code::Pi(2), Code::Rice(2), Code::Golomb(3), Code::ExpGolomb(1), Code::MinBin(5), Code::VByteBe, Code::VByteLe] {
        a.extend(crate::streams::read_variants(c, false));
    }
    a
}

fn std_meta(property: &'static str, level: &'static str, rule: &str) -> CheckMeta {
    CheckMeta {
        property: property.into(),
        level: level.into(),
        rule: rule.into(),
        assumptions: vec!["reference model = canonical layout + textbook codecs (harness/src/model.rs)".into(), "little-endian 64-bit host".into()],
    }
}

pub fn c07(ctx: &Ctx) -> (CheckMeta, Outcome) {
    let nbits = if ctx.thorough { 512 } else { 256 };
    let mut tasks: Vec<Task> = vec![];
    for e in End::BOTH {
        for kind in KINDS {
            for backend in BACKENDS {
                let diag = ctx.diag[kind];
                let seed = ctx.seed;
                let thorough = ctx.thorough;
                tasks.push(Box::new(move || {
                    let mut out = Outcome::new();
                    let (w, pk) = kind_word(kind);
                    let mut alphabet = reduced_alphabet(w, pk);
                    alphabet.extend(code_ops());
                    for n in [0u16, 1, 3, 8, 9, 17] {
                        alphabet.push(ROp::IoRead(n));
                    }
                    for p in 0..=nbits as u64 {
                        alphabet.push(ROp::SetPos(p));
                    }
                    let imgs = images(e, nbits, seed, thorough);
                    let take = if thorough { 6 } else { 2 };
                    for img in imgs.iter().take(take) {
                        let model = RdModel { bits: Bits::from_bytes(&img.bytes, e), e, zx: backend == "memzx", limit: nbits + 96, tables_ok: diag };
                        let rd = make_reader(e, kind, backend, "", &img.bytes);
                        let run = RdRun { property: "C07", model: &model, image: &img.bytes, alphabet: &alphabet, max_states: 40_000, check_counter: false, max_depth: 0 };
                        out.merge(explore(&run, rd));
                    }
                    // byte streams whose length is not a multiple of the word: the partial trailing word is not data
                    if matches!(backend, "cursor" | "bufreader" | "choppy") && w > 8 {
                        let img = &imgs[1];
                        for tl in [1usize, w / 8 - 1] {
                            let model = RdModel { bits: Bits::from_bytes(&img.bytes, e), e, zx: false, limit: nbits + 96, tables_ok: diag };
                            let rd = make_reader_tail(e, kind, backend, "", &img.bytes, &vec![0xFF; tl]);
                            let run = RdRun { property: "C07", model: &model, image: &img.bytes, alphabet: &alphabet, max_states: 40_000, check_counter: false, max_depth: 0 };
                            out.merge(explore(&run, rd));
                            if tl == w / 8 - 1 {
                                break;
                            }
                        }
                    }
                    out
                }));
            }
        }
    }
    let mut out = run_all(tasks, threads());
    out.merge(crate::props::huge::read_huge("C07", ctx));
    out.merge(crate::props::prepos::prepositioned("C07", ctx));
    (
        std_meta(
            "C07",
            "model_checking",
            "BFS to the fixpoint of the real reader for every (endianness, reader kind, backend in zero-extended/strict memory, vector/slice writer read back, Cursor and BufReader<Cursor> through WordAdapter, also over byte streams with a partial trailing word); alphabet: boundary read_bits/peek/skip, read_unary, every read variant (tables on/off) of 12 codes, io::Read of 0,1,3,8,9,17 bytes, and set_bit_pos(p) for EVERY p in 0..=L from EVERY reachable state; after every transition bit_pos() must equal the model position; states reached through a reported error (strict backends) are continued by seeks; a post-seek object that differs from every sequentially reached state is a new state and is expanded with the full alphabet (differential oracle: seek(p) == fresh reader that consumed p bits); the byte-stream backends include a seekable source that delivers its bytes in pieces (junctions inside and between words, ErrorKind::Interrupted at each junction); plus positions around and beyond 2^32 on a synthetic sparse word source: bit_pos after read_unary / skip_bits of about 2^32 bits and seeks to such positions followed by reads; plus adapters created over a Cursor / BufReader<Cursor> ALREADY positioned 1..3 words into the byte stream: bit_pos() at creation is absolute, and every sequence of up to 4 (thorough: 5) operations from a 12-letter alphabet (reads, unary, peek, skip, gamma, save/restore position, absolute seeks) gives the same values and positions as on a reader created at offset 0 and moved there by set_bit_pos",
        ),
        out,
    )
}

pub fn c09(ctx: &Ctx) -> (CheckMeta, Outcome) {
    let full = if ctx.thorough { 384 } else { 256 };
    let mut tasks: Vec<Task> = vec![];
    for e in End::BOTH {
        for kind in KINDS {
            for backend in BACKENDS {
                let diag = ctx.diag[kind];
                let seed = ctx.seed;
                let thorough = ctx.thorough;
                tasks.push(Box::new(move || {
                    let mut out = Outcome::new();
                    let (w, pk) = kind_word(kind);
                    let mut alphabet = reduced_alphabet(w, pk);
                    alphabet.extend(code_ops());
                    for n in [1u16, 2, 8, 9] {
                        alphabet.push(ROp::IoRead(n));
                    }
                    // seeks (issued from every state, including states reached through a reported error)
                    for p in [0u64, 1, 7, 8, 9, 16, 31, 32, 33, 63, 64, 65, 100, 127, 128, 129, 190, 200, 248, 255, 256] {
                        alphabet.push(ROp::SetPos(p));
                    }
                    let imgs = images(e, full, seed, false);
                    // image 1 = valid mixed-code stream; image 0 = seeded
                    let which: Vec<usize> = if thorough { vec![1, 0, 2] } else { vec![1] };
                    for ii in which {
                        let img = &imgs[ii];
                        // truncate after every backend word
                        let wb = w / 8;
                        let mut cut = wb;
                        let mut ncuts = 0u64;
                        while cut <= img.bytes.len() {
                            let bytes = &img.bytes[..cut];
                            let model = RdModel { bits: Bits::from_bytes(bytes, e), e, zx: backend == "memzx", limit: cut * 8 + 80, tables_ok: diag };
                            let rd = make_reader(e, kind, backend, "", bytes);
                            let run = RdRun { property: "C09", model: &model, image: bytes, alphabet: &alphabet, max_states: 40_000, check_counter: false, max_depth: 0 };
                            out.merge(explore(&run, rd));
                            // a partial trailing word after the cut (byte streams only): still not data
                            if matches!(backend, "cursor" | "bufreader" | "choppy") && w > 8 && (ncuts % 3 == 0) {
                                let tl = if ncuts % 2 == 0 { 1 } else { w / 8 - 1 };
                                let rd = make_reader_tail(e, kind, backend, "", bytes, &vec![0xFF; tl]);
                                let run = RdRun { property: "C09", model: &model, image: bytes, alphabet: &alphabet, max_states: 40_000, check_counter: false, max_depth: 0 };
                                out.merge(explore(&run, rd));
                            }
                            cut += wb;
                            ncuts += 1;
                        }
                        out.cov.add_extra("truncation_points", ncuts);
                    }
                    out
                }));
            }
        }
    }
    let mut out = run_all(tasks, threads());
    out.merge(tail_exact("C09", ctx));
    out.cov.evaluations = out.cov.transitions;
    // non-trivial: transitions that needed a bit beyond the cut (must-error on strict, zero-extension on memzx)
    out.cov.nontrivial = out.cov.per_class.values().sum::<u64>().min(out.cov.obs.values().map(|s| s.len() as u64).sum());
    (
        std_meta(
            "C09",
            "fault_enumeration",
            "a valid mixed-code stream is truncated after EVERY backend word; for every truncation point the reader state space is explored to its fixpoint on strict backends (strict memory reader, vector and slice writers read back, WordAdapter over a truncated Cursor / BufReader, also with a partial trailing word of 1 or W/8-1 bytes after the cut) and on the zero-extended reader; the model classifies every (state, operation): needs only bits inside the data => must return Ok with the model value (incl. table-driven reads whose look-ahead passes the end); needs a bit beyond the end => must return Err on strict backends (never a value, never a panic) and the zero-extended value on MemWordReader::new; alphabet: boundary read_bits/peek/skip, unary, all read variants of 12 codes, io::Read, 21 seek targets; a state reached through a reported error is continued by seeks only (the seek must re-establish a defined state whatever the failed operation consumed); plus 'tail-exact' streams: every core code x 84 values whose codeword ends exactly with the last bit of a strict stream (memory, vector read back, Cursor) must decode through every read variant, leave the reader at the end, and the next read must fail; distinct_nontrivial = number of distinct observations",
        ),
        out,
    )
}

pub fn c12_read(ctx: &Ctx) -> Outcome {
    let nbits = if ctx.thorough { 768 } else { 512 };
    let mut tasks: Vec<Task> = vec![];
    for e in End::BOTH {
        for kind in KINDS {
            for backend in ["memzx", "memstrict", "cursor"] {
                let diag = ctx.diag[kind];
                let seed = ctx.seed;
                let thorough = ctx.thorough;
                tasks.push(Box::new(move || {
                    let mut out = Outcome::new();
                    let (w, _pk) = kind_word(kind);
                    let mut alphabet: Vec<ROp> = vec![];
                    for n in 0..=(if thorough { 2 * w + 1 } else { w + 1 }).min(64) {
                        alphabet.push(ROp::ReadBits(n as u8));
                    }
                    alphabet.push(ROp::Peek(w.min(32) as u8));
                    alphabet.push(ROp::Unary);
                    for n in 0..=40u16 {
                        alphabet.push(ROp::IoRead(n));
                    }
                    // the provided methods of std::io::Read an implementor may override
                    for n in [0u16, 1, 7, 8, 9, 15, 16, 17, 33] {
                        alphabet.push(ROp::IoReadExact(n));
                    }
                    for (a, b, c) in [(3u16, 2u16, 20u16), (1, 1, 1), (0, 5, 0), (8, 8, 1), (7, 1, 9), (12, 2, 30), (0, 0, 0), (9, 0, 0)] {
                        alphabet.push(ROp::IoReadVec(a, b, c));
                    }
                    let imgs = images(e, nbits, seed, thorough);
                    for img in imgs.iter().take(if thorough { 4 } else { 1 }) {
                        let model = RdModel { bits: Bits::from_bytes(&img.bytes, e), e, zx: backend == "memzx", limit: nbits + 64, tables_ok: diag };
                        let rd = make_reader(e, kind, backend, "", &img.bytes);
                        let run = RdRun { property: "C12", model: &model, image: &img.bytes, alphabet: &alphabet, max_states: 40_000, check_counter: false, max_depth: 0 };
                        out.merge(explore(&run, rd));
                    }
                    out
                }));
            }
        }
    }
    run_all(tasks, threads())
}

pub fn copy_ops(w: usize, thorough: bool) -> Vec<ROp> {
    let mut ns: Vec<usize> = if thorough { (0..=2 * w + 2).collect() } else { vec![0, 1, 2, w / 2, w - 1, w, w + 1] };
    ns.extend([2 * w - 1, 2 * w, 2 * w + 1, 3 * w + 2, 5 * w + 7, 8 * w, 200]);
    ns.sort();
    ns.dedup();
    let mut a = vec![];
    for &n in &ns {
        for wd in [8u8, 16, 32, 64, 128] {
            let mut pfs: Vec<usize> = if thorough { vec![0, 1, 2, wd as usize / 2, wd as usize - 2] } else { vec![0] };
            pfs.push(wd as usize - 1);
            if !thorough && (n == 1 || n == 2 || n == w / 2) {
                // a partly filled destination with room for the whole copy (failing copies near the
                // end of a strict source must leave these bits alone)
                pfs.push(3);
            }
            pfs.sort();
            pfs.dedup();
            for pf in pfs {
                for from in [false, true] {
                    a.push(ROp::Copy { n: n as u32, wd, prefill: pf as u8, from });
                }
            }
        }
    }
    a
}

/// C08, source view: the reader state space with copy operations in the alphabet.
pub fn c08_source(ctx: &Ctx) -> Outcome {
    let nbits = if ctx.thorough { 768 } else { 640 };
    let mut tasks: Vec<Task> = vec![];
    for e in End::BOTH {
        for kind in KINDS {
            for (backend, wrapper) in [("memzx", ""), ("memstrict", ""), ("cursor", ""), ("memzx", "count")] {
                if wrapper == "count" && !ctx.thorough && kind != "buf32" {
                    continue;
                }
                let diag = ctx.diag[kind];
                let seed = ctx.seed;
                let thorough = ctx.thorough;
                tasks.push(Box::new(move || {
                    let mut out = Outcome::new();
                    let (w, pk) = kind_word(kind);
                    let mut alphabet = reduced_alphabet(w, pk);
                    alphabet.extend(code_ops());
                    let mut cops = copy_ops(w, thorough);
                    if !wrapper.is_empty() {
                        cops.retain(|op| matches!(op, ROp::Copy { wd: 64, .. }));
                    }
                    alphabet.extend(cops);
                    if wrapper.is_empty() {
                        // (the counting wrapper's counter is part of its state: with seeks the space would not close)
                        alphabet.push(ROp::SetPos(0));
                        alphabet.push(ROp::SetPos(w as u64 + 3));
                    }
                    let imgs = images(e, nbits, seed, thorough);
                    // seeded, valid codewords (table look-ahead before and after copies), all-ones in thorough
                    let sel: Vec<usize> = if thorough { vec![1, 0] } else { vec![1] };
                    for ii in sel {
                        let img = &imgs[ii];
                        let model = RdModel { bits: Bits::from_bytes(&img.bytes, e), e, zx: backend == "memzx", limit: nbits + 64, tables_ok: diag };
                        let rd = make_reader(e, kind, backend, wrapper, &img.bytes);
                        let run = RdRun { property: "C08", model: &model, image: &img.bytes, alphabet: &alphabet, max_states: 40_000, check_counter: false, max_depth: 0 };
                        out.merge(explore(&run, rd));
                    }
                    out
                }));
            }
        }
    }
    run_all(tasks, threads())
}

/// C14, read side: the reader state space through the counting / tracing wrappers.
pub fn c14_read(ctx: &Ctx) -> Outcome {
    let nbits = if ctx.thorough { 512 } else { 256 };
    let mut tasks: Vec<Task> = vec![];
    for e in End::BOTH {
        for kind in KINDS {
            for backend in ["memzx", "memstrict"] {
                for wrapper in ["count", "dbg", "count+pre", "count+pre/seeks", "countp"] {
                    if !ctx.thorough && wrapper == "dbg" && !(kind == "buf16" || kind == "buf32" || kind == "unbuf") {
                        continue;
                    }
                    // the counting wrapper with PRINT on: two reader kinds and the strict backend in the quick tier
                    if !ctx.thorough && wrapper == "countp" && !((kind == "buf16" || kind == "unbuf") && backend == "memstrict") {
                        continue;
                    }
                    // "count+pre": the wrapper is created after 13 bits were consumed; "/seeks": seeks
                    // through the wrapper (positions checked, histories of at most 3 operations since the
                    // counter makes the space infinite)
                    let with_seeks = wrapper.ends_with("/seeks");
                    let wrapper = if with_seeks { "count+pre" } else { wrapper };
                    if with_seeks && backend != "memstrict" {
                        continue;
                    }
                    let diag = ctx.diag[kind];
                    let seed = ctx.seed;
                    let thorough = ctx.thorough;
                    tasks.push(Box::new(move || {
                        let mut out = Outcome::new();
                        let (w, pk) = kind_word(kind);
                        let mut alphabet = reduced_alphabet(w, pk);
                        alphabet.extend(code_ops());
                        for n in [0u32, 1, w as u32 - 1, w as u32 + 1, 70, 130] {
                            for from in [false, true] {
                                alphabet.push(ROp::Copy { n, wd: 64, prefill: 3, from });
                            }
                        }
                        if with_seeks {
                            for p in [0u64, 7, w as u64 + 3, 100] {
                                alphabet.push(ROp::SetPos(p));
                            }
                        }
                        let imgs = images(e, nbits, seed, thorough);
                        // valid codewords, and long zero runs (unary values of several words)
                        let sel: Vec<usize> = if thorough { vec![1, 2, 0, 3] } else { vec![1, 2] };
                        for ii in sel {
                            let img = &imgs[ii];
                            let model = RdModel { bits: Bits::from_bytes(&img.bytes, e), e, zx: backend == "memzx", limit: nbits + 64, tables_ok: diag };
                            let rd = make_reader(e, kind, backend, wrapper, &img.bytes);
                            let run = RdRun { property: "C14", model: &model, image: &img.bytes, alphabet: &alphabet, max_states: 40_000, check_counter: !with_seeks, max_depth: if with_seeks { 3 } else { 0 } };
                            out.merge(explore(&run, rd));
                        }
                        out
                    }));
                }
            }
        }
    }
    run_all(tasks, threads())
}


/// C08: long copies (hundreds to a thousand words in one call), outside the reach of the state-space views.
pub fn c08_long(ctx: &Ctx) -> Outcome {
    use crate::report::Violation;
    let mut tasks: Vec<Task> = vec![];
    for e in End::BOTH {
        for kind in KINDS {
            for wd in [8u8, 16, 32, 64, 128] {
                let seed = ctx.seed;
                let thorough = ctx.thorough;
                tasks.push(Box::new(move || {
                    let mut out = Outcome::new();
                    let (w, _pk) = kind_word(kind);
                    let cfg = format!("{}/{}/long-copy/w{}", e.name(), kind, wd);
                    out.cov.configs.insert(cfg.clone());
                    let nbits = 1026 * 128 + 1024;
                    let mut rng = crate::util::Rng::new(seed ^ 0x10C0);
                    let bytes: Vec<u8> = (0..nbits / 8).map(|_| rng.next() as u8).collect();
                    let model = RdModel { bits: Bits::from_bytes(&bytes, e), e, zx: true, limit: nbits, tables_ok: [false; 3] };
                    let base = make_reader(e, kind, "memzx", "", &bytes);
                    let info = base.info().clone();
                    let blocks: Vec<usize> = if thorough { vec![63, 64, 65, 127, 128, 129, 255, 256, 257, 511, 512, 513, 1023, 1024, 1025] } else { vec![127, 128, 129, 256, 1024] };
                    for &b in &blocks {
                        for unit in [w, wd as usize] {
                            for r in [0usize, 1, 5, 21, unit - 1] {
                                let n = b * unit + r;
                                for prefill in [0u8, 24.min(wd - 1), wd - 1] {
                                    for k in [0usize, 3] {
                                        for from in [false, true] {
                                            if k + n + 64 > nbits {
                                                continue;
                                            }
                                            let mut rd = base.fork();
                                            if k > 0 {
                                                rd.apply(&ROp::Skip(k as u16));
                                            }
                                            let op = ROp::Copy { n: n as u32, wd, prefill, from };
                                            let exp = model.expect(&op, k, &info);
                                            let obs = rd.apply(&op);
                                            out.cov.transitions += 1;
                                            out.cov.evaluations += 1;
                                            out.cov.nontrivial += 1;
                                            let mut verdict = judge(&exp, &obs, k);
                                            if let Ok(Some(np)) = verdict {
                                                // the source must continue correctly
                                                match rd.bit_pos() {
                                                    Some(Ok(p)) if p as usize == np => {}
                                                    other => verdict = Err(("position".into(), format!("after the copy bit_pos is {:?}, expected {}", other, np))),
                                                }
                                                if verdict.is_ok() {
                                                    let want = model.bits.field(np, 37, e, true).unwrap() as u64;
                                                    let o2 = rd.apply(&ROp::ReadBits(37));
                                                    if o2 != RObs::Val(want) {
                                                        verdict = Err(("value".into(), format!("after the copy the next 37 bits read as {:?}, expected {}", o2, want)));
                                                    }
                                                }
                                            }
                                            if let Err((sym, det)) = verdict {
                                                if out.violations.len() < 12 {
                                                    let mut ops = vec![];
                                                    if k > 0 {
                                                        ops.push(ROp::Skip(k as u16));
                                                    }
                                                    ops.push(op.clone());
                                                    out.violations.push(Violation {
                                                        property: "C08".into(),
                                                        system: "long-copy".into(),
                                                        config: cfg.clone(),
                                                        op_class: op.class().into(),
                                                        symptom: sym,
                                                        detail: format!("{:?} after skipping {} bits: {}", op, k, det.chars().take(300).collect::<String>()),
                                                        replay: replay_doc(&info, &model, &bytes, &ops),
                                                    });
                                                }
                                            }
                                        }
                                    }
                                }
                            }
                        }
                    }
                    out
                }));
            }
        }
    }
    run_all(tasks, threads())
}

/// C02: a zero-extended stream really is followed by (very) many zeros: a long run of reads past the end.
pub fn c02_long_zero_extension(ctx: &Ctx) -> Outcome {
    use crate::report::Violation;
    let mut tasks: Vec<Task> = vec![];
    for e in End::BOTH {
        for kind in KINDS {
            let thorough = ctx.thorough;
            tasks.push(Box::new(move || {
                let mut out = Outcome::new();
                let cfg = format!("{}/{}/memzx/long-run", e.name(), kind);
                out.cov.configs.insert(cfg.clone());
                let bytes = vec![0xFFu8; 16];
                let mut rd = make_reader(e, kind, "memzx", "", &bytes);
                rd.apply(&ROp::Skip(128));
                let reads: u64 = if thorough { 3_000_000 } else { 140_000 };
                let mut pos: u64 = 128;
                for i in 0..reads {
                    let op = if i % 3 == 0 { ROp::Skip(64) } else { ROp::ReadBits(64) };
                    let o = rd.apply(&op);
                    pos += 64;
                    out.cov.transitions += 1;
                    let ok = matches!(o, RObs::Val(0) | RObs::Unit);
                    if !ok || (i % 4096 == 0 && rd.bit_pos() != Some(Ok(pos))) {
                        out.violations.push(Violation {
                            property: "C02".into(),
                            system: "long-zero-extension".into(),
                            config: cfg.clone(),
                            op_class: op.class().into(),
                            symptom: if matches!(o, RObs::Panic(_)) { "panic".into() } else { "value".into() },
                            detail: format!("read #{} beyond the end of a zero-extended stream (bit {}): {:?}", i, pos, o),
                            replay: serde_json::json!({"kind": "none"}),
                        });
                        break;
                    }
                }
                out
            }));
        }
    }
    run_all(tasks, threads())
}


/// Codewords ending exactly with the last bit of a strict stream (every core code, small values and
/// table boundaries, every reader kind, every strict backend, 0 or 1 extra leading words).
pub fn tail_exact(prop: &'static str, ctx: &Ctx) -> Outcome {
    use crate::model::Code;
    let mut tasks: Vec<Task> = vec![];
    for e in End::BOTH {
        for kind in KINDS {
            for backend in ["memstrict", "vec", "cursor", "choppy"] {
                let diag = ctx.diag.clone();
                let thorough = ctx.thorough;
                tasks.push(Box::new(move || {
                    let mut out = Outcome::new();
                    out.cov.configs.insert(format!("{}/{}/{}/tail-exact", e.name(), kind, backend));
                    let mut vals: Vec<u64> = (0..(if thorough { 300 } else { 70 })).collect();
                    vals.extend([127, 128, 255, 256, 1022, 1023, 1024, 1025, 4095, 65535, 65536, 1 << 20, (1 << 32) - 1, 1 << 40]);
                    for code in crate::grid::core_codes() {
                        if matches!(code, Code::MinBin(_)) {
                            continue;
                        }
                        for &v in &vals {
                            if !crate::grid::in_domain(code, v) || crate::model::ref_len(code, v) > 600 {
                                continue;
                            }
                            for extra in [0usize, 1] {
                                crate::streams::check_tail_exact(e, kind, backend, code, v, extra, &diag, prop, &mut out);
                            }
                        }
                    }
                    out
                }));
            }
        }
    }
    run_all(tasks, threads())
}


/// Small-scope, data-complete section: every one of the 2^16 two-byte streams is explored to the
/// fixpoint on the u8-word reader (two words: every refill boundary) and the u16-word reader (one
/// word), strict and zero-extended.  Removes the "finite set of images" limit for short streams.
pub fn all_small_images(prop: &'static str, ctx: &Ctx) -> Outcome {
    use crate::model::Code;
    let mut tasks: Vec<Task> = vec![];
    const CHUNKS: usize = 32;
    for e in End::BOTH {
        for kind in ["buf8", "buf16"] {
            if kind == "buf16" && !ctx.thorough {
                // one-word streams: thorough tier only
                continue;
            }
            for backend in ["memstrict", "memzx"] {
                for chunk in 0..CHUNKS {
                    let diag = ctx.diag[kind];
                    let thorough = ctx.thorough;
                    tasks.push(Box::new(move || {
                        let mut out = Outcome::new();
                        let (_, pk) = kind_word(kind);
                        let mut alphabet: Vec<ROp> = vec![];
                        if thorough {
                            for n in 0..=17u8 {
                                alphabet.push(ROp::ReadBits(n));
                            }
                            for n in 1..=pk as u8 {
                                alphabet.push(ROp::Peek(n));
                            }
                            for n in 0..=17u16 {
                                alphabet.push(ROp::Skip(n));
                            }
                            alphabet.push(ROp::Unary);
                            alphabet.extend(code_ops());
                        } else {
                            for n in [1u8, 2, 3, 7, 8, 9, 16] {
                                alphabet.push(ROp::ReadBits(n));
                            }
                            for n in [1u8, 8] {
                                if n as usize <= pk {
                                    alphabet.push(ROp::Peek(n));
                                }
                            }
                            for n in [1u16, 9] {
                                alphabet.push(ROp::Skip(n));
                            }
                            alphabet.push(ROp::Unary);
                            for op in [ROp::GammaP(false), ROp::DeltaP(false, false), ROp::Omega, ROp::Golomb(3), ROp::ZetaP(3)] {
                                alphabet.push(op);
                            }
                        }
                        let per = 65536 / CHUNKS;
                        let mut agg = Outcome::new();
                        for x in (chunk * per)..((chunk + 1) * per) {
                            let bytes = [(x >> 8) as u8, x as u8];
                            let model = RdModel { bits: Bits::from_bytes(&bytes, e), e, zx: backend == "memzx", limit: if thorough { 32 } else { 24 }, tables_ok: diag };
                            let rd = make_reader(e, kind, backend, "", &bytes);
                            let run = RdRun { property: prop, model: &model, image: &bytes, alphabet: &alphabet, max_states: 4_000, check_counter: false, max_depth: 0 };
                            let o = explore(&run, rd);
                            agg.cov.add_extra("small_scope_images", 1);
                            agg.merge(o);
                            if agg.violations.len() > 40 {
                                break;
                            }
                        }
                        out.merge(agg);
                        out
                    }));
                }
            }
        }
    }
    run_all(tasks, threads())
}
