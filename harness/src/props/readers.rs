//! C02 / C07 / C09 / C12(read) / C05(3): reader state spaces.

use crate::images::images;
use crate::model::{Bits, End};
use crate::pool::{run_all, threads, Task};
use crate::rd::*;
use crate::rdsys::*;
use crate::report::{CheckMeta, Outcome};
use crate::Ctx;

pub fn base_alphabet(info_word: usize, peek_max: usize) -> Vec<ROp> {
    let w = info_word;
    let mut a = vec![];
    for n in 0..=64u8 {
        a.push(ROp::ReadBits(n));
    }
    for n in 1..=peek_max as u8 {
        a.push(ROp::Peek(n));
    }
    for n in 0..=(2 * w + 1) as u16 {
        a.push(ROp::Skip(n));
    }
    a.push(ROp::Skip(3 * w as u16));
    a.push(ROp::Skip(3 * w as u16 + 1));
    a.push(ROp::Unary);
    a
}

fn kind_word(kind: &str) -> (usize, usize) {
    match kind {
        "buf8" => (8, 8),
        "buf16" => (16, 16),
        "buf32" => (32, 32),
        "buf64" => (64, 64),
        _ => (64, 32),
    }
}

pub fn c02(ctx: &Ctx) -> (CheckMeta, Outcome) {
    let nbits = if ctx.thorough { 640 } else { 384 };
    let mut tasks: Vec<Task> = vec![];
    for e in End::BOTH {
        for kind in KINDS {
            for backend in BACKENDS {
                let diag = ctx.diag[kind];
                let seed = ctx.seed;
                let thorough = ctx.thorough;
                tasks.push(Box::new(move || {
                    let mut out = Outcome::new();
                    let (w, pk) = kind_word(kind);
                    let alphabet = base_alphabet(w, pk);
                    for img in images(e, nbits, seed, thorough) {
                        let model = RdModel { bits: Bits::from_bytes(&img.bytes, e), e, zx: backend == "memzx", limit: nbits + 160, tables_ok: diag };
                        let rd = make_reader(e, kind, backend, "", &img.bytes);
                        let run = RdRun { property: "C02", model: &model, image: &img.bytes, alphabet: &alphabet, max_states: 0, check_counter: false };
                        out.merge(explore(&run, rd));
                    }
                    out
                }));
            }
        }
    }
    let out = run_all(tasks, threads());
    let meta = CheckMeta {
        property: "C02",
        level: "model_checking",
        rule: "breadth-first exploration to the fixpoint of the real reader object (exact Debug-string state identity) for every (endianness, reader kind, backend, image); alphabet read_bits 0..=64, peek 1..=max twice, skip 0..=2W+1,3W,3W+1, read_unary; every transition compared with the bit-vector model (value, advance, bit_pos); distinct_nontrivial counts transitions that start in a state reached through at least one earlier operation".into(),
        assumptions: vec!["reference model = canonical layout of C01 (harness/src/model.rs)".into(), "little-endian 64-bit host".into()],
    };
    (meta, out)
}
