//! One module per property: alphabet + bounds + oracle wiring.

use crate::report::{CheckMeta, Outcome};
use crate::Ctx;

pub mod diag;
pub mod dispatch;
pub mod huge;
pub mod prepos;
pub mod adapter;
pub mod builds;
pub mod codes;
pub mod memwords;
pub mod modelval;
pub mod pure;
pub mod readers;
pub mod stats;
pub mod tables;
pub mod writers;

pub fn run(id: &str, ctx: &Ctx) -> (CheckMeta, Outcome) {
    match id {
        "C01" => writers::c01(ctx),
        "C02" => readers::c02(ctx),
        "C03" => codes::c03(ctx),
        "C04" => codes::c04(ctx),
        "C05" => tables::c05(ctx),
        "C06" => codes::c06(ctx),
        "C07" => readers::c07(ctx),
        "C08" => writers::c08(ctx),
        "C09" => readers::c09(ctx),
        "C10" => dispatch::c10(ctx),
        "C11" => adapter::c11(ctx),
        "C12" => writers::c12(ctx),
        "C13" => memwords::c13(ctx),
        "C14" => writers::c14(ctx),
        "C15" => stats::c15(ctx),
        "C16" => pure::c16(ctx),
        "C17" => pure::c17(ctx),
        "C18" => pure::c18(ctx),
        "C19" => builds::c19(ctx),
        "C20" => pure::c20(ctx),
        _ => {
            println!("unknown property {}", id);
            std::process::exit(2);
        }
    }
}

/// `dsiv replay <file>`: re-execute a replay recipe twice and compare (determinism),
/// print the transcript. Exit 1 if the violation reproduces, 0 if not, 3 if non-deterministic.
pub fn replay_file(path: &str) -> i32 {
    let s = std::fs::read_to_string(path).expect("cannot read replay file");
    let doc: serde_json::Value = serde_json::from_str(&s).expect("replay file is not JSON");
    let r = if doc.get("replay").is_some() { doc["replay"].clone() } else if doc.get("hang_at").is_some() { doc["hang_at"].clone() } else { doc.clone() };
    let diag = diag::probe();
    crate::util::silence_stderr();
    let run = |r: &serde_json::Value| -> (Vec<String>, bool) {
        match r["kind"].as_str().unwrap_or("") {
            "reader" => crate::rdsys::replay(r),
            "writer" => crate::wrsys::replay(r),
            "item" => crate::streams::replay_item(r, &diag),
            "len" => codes::replay_len(r),
            "disp" => dispatch::replay(r),
            "memwords" => memwords::replay(r),
            "adapter-env" | "adapter-cursor" => adapter::replay(r),
            k => (vec![format!("unknown replay kind {:?}", k)], false),
        }
    };
    let (a, fa) = run(&r);
    let (b, fb) = run(&r);
    for l in &a {
        println!("{}", l);
    }
    if a != b || fa != fb {
        println!("NON-DETERMINISTIC replay: two executions differ");
        return 3;
    }
    if fa {
        println!("REPRODUCED (identical in two executions)");
        1
    } else {
        println!("not reproduced: every step agrees with the model");
        0
    }
}
