//! C15: statistics are exact, mergeable (sequential grid) and thread-safe (loom, separate binary).

use crate::model::{ref_len, Code, End};
use crate::pool::{run_all, threads, Task};
use crate::report::{CheckMeta, Outcome, Violation};
use crate::Ctx;
use dsi_bitstream::prelude::*;
use serde_json::json;

type Stats = CodesStats<10, 20, 10, 10, 10>;

pub const ALPHA: [u64; 10] = [0, 1, 63, 64, 1023, 1024, 65535, 65537, 1 << 32, (1 << 40) + 1];

/// every tracked (field name, code) pair: the code/parameter each public field denotes
fn tracked() -> Vec<(String, Code)> {
    let mut t = vec![("unary".to_string(), Code::Unary), ("gamma".into(), Code::Gamma), ("delta".into(), Code::Delta), ("omega".into(), Code::Omega), ("vbyte".into(), Code::VByteBe)];
    for k in 1..=10u32 {
        t.push((format!("zeta[{}]", k - 1), Code::Zeta(k)));
    }
    for b in 1..=20u64 {
        t.push((format!("golomb[{}]", b - 1), Code::Golomb(b)));
    }
    for k in 0..10u32 {
        t.push((format!("exp_golomb[{}]", k), Code::ExpGolomb(k)));
    }
    for k in 0..10u32 {
        t.push((format!("rice[{}]", k), Code::Rice(k)));
    }
    for k in 2..12u32 {
        t.push((format!("pi[{}]", k - 2), Code::Pi(k)));
    }
    t
}

fn fields(s: &Stats) -> Vec<u64> {
    let mut f = vec![s.unary, s.gamma, s.delta, s.omega, s.vbyte];
    f.extend(s.zeta);
    f.extend(s.golomb);
    f.extend(s.exp_golomb);
    f.extend(s.rice);
    f.extend(s.pi);
    f
}

fn code_of_codes(c: &Codes) -> Option<Code> {
    Some(match c {
        Codes::Unary => Code::Unary,
        Codes::Gamma => Code::Gamma,
        Codes::Delta => Code::Delta,
        Codes::Omega => Code::Omega,
        Codes::VByteBe => Code::VByteBe,
        Codes::VByteLe => Code::VByteLe,
        Codes::Zeta { k } => Code::Zeta(*k as u32),
        Codes::Pi { k } => Code::Pi(*k as u32),
        Codes::Golomb { b } => Code::Golomb(*b as u64),
        Codes::ExpGolomb { k } => Code::ExpGolomb(*k as u32),
        Codes::Rice { log2_b } => Code::Rice(*log2_b as u32),
        _ => return None,
    })
}

/// actual number of bits the real writer needs for `v` with `code` (only for short codewords)
fn actual_size(code: Code, v: u64) -> Option<usize> {
    if ref_len(code, v) > 4096 {
        return None;
    }
    let ops = [crate::wr::WOp::Code { code, v }];
    let fo = crate::wr::run_on_backend(End::BE, 64, "vec", "into_inner", &ops, 80).ok()?;
    match fo.obs.first() {
        Some(crate::wr::WObs::Ret(n)) => Some(*n),
        _ => None,
    }
}

fn bad(out: &mut Outcome, system: &str, op: &str, sym: &str, detail: String, ms: &[u64]) {
    if out.violations.len() < 30 {
        out.violations.push(Violation {
            property: "C15".into(),
            system: system.into(),
            config: "seq".into(),
            op_class: op.into(),
            symptom: sym.into(),
            detail,
            replay: json!({"kind": "stats", "multiset": ms}),
        });
    }
}

pub fn check_multiset(ms: &[u64], cost: &dyn Fn(Code, u64) -> u64, deep: bool, out: &mut Outcome) {
    let tr = tracked();
    out.cov.evaluations += 1;
    if ms.len() >= 2 {
        out.cov.nontrivial += 1;
    }
    // expected totals
    let want: Vec<u64> = tr.iter().map(|(_, c)| ms.iter().map(|&v| cost(*c, v)).sum()).collect();
    // one by one
    let mut s = Stats::default();
    for &v in ms {
        let r = s.update(v);
        if r != v {
            bad(out, "stats", "update", "value", format!("update({}) returned {}", v, r), ms);
        }
    }
    let f = fields(&s);
    for (i, (name, code)) in tr.iter().enumerate() {
        if f[i] != want[i] {
            bad(out, "stats", "update", "total", format!("multiset {:?}: field {} = {} but writing the values with {:?} takes {} bits", ms, name, f[i], code, want[i]), ms);
            return;
        }
    }
    if s.total != ms.len() as u64 {
        bad(out, "stats", "update", "count", format!("total = {} for {} values", s.total, ms.len()), ms);
    }
    // best code
    let (bc, bcost) = s.best_code();
    let min = *want.iter().min().unwrap();
    match code_of_codes(&bc) {
        Some(c) => {
            let real: u64 = ms.iter().map(|&v| cost(c, v)).sum();
            if bcost != min || real != bcost {
                bad(out, "stats", "best_code", "value", format!("multiset {:?}: best_code() = ({:?}, {}) but the minimum total is {} and encoding with {:?} takes {}", ms, bc, bcost, min, c, real), ms);
            }
        }
        None => bad(out, "stats", "best_code", "value", format!("best_code returned {:?}", bc), ms),
    }
    let reference = format!("{:?}", s);
    // multiplicities through update_many
    {
        let mut distinct: Vec<u64> = ms.to_vec();
        distinct.dedup();
        let mut m = Stats::default();
        for &d in &distinct {
            let c = ms.iter().filter(|&&x| x == d).count() as u64;
            m.update_many(d, c);
            m.update_many(d, 0);
        }
        if format!("{:?}", m) != reference {
            bad(out, "stats", "update_many", "total", format!("multiset {:?}: update_many with multiplicities differs from one-by-one updates", ms), ms);
        }
    }
    if !deep {
        return;
    }
    // every split into <= 3 parts, every merge form
    let n = ms.len();
    let mut assign = vec![0usize; n];
    loop {
        let mut parts = [Stats::default(), Stats::default(), Stats::default()];
        for (i, &v) in ms.iter().enumerate() {
            parts[assign[i]].update(v);
        }
        out.cov.transitions += 1;
        // add
        let mut a = parts[0];
        a.add(&parts[1]);
        a.add(&parts[2]);
        // +=
        let mut b = parts[0];
        b += parts[1];
        b += parts[2];
        // +
        let c = parts[0] + parts[1] + parts[2];
        // sum
        let d: Stats = parts.iter().copied().sum();
        // other association / order
        let e = parts[2] + (parts[1] + parts[0]);
        for (name, x) in [("add", a), ("+=", b), ("+", c), ("sum", d), ("+ (reordered)", e)] {
            if format!("{:?}", x) != reference {
                bad(out, "stats", "merge", "total", format!("multiset {:?} split {:?}: merging with {} differs from observing the union", ms, assign, name), ms);
            }
        }
        // next assignment
        let mut i = 0;
        loop {
            if i == n {
                break;
            }
            assign[i] += 1;
            if assign[i] < 3 {
                break;
            }
            assign[i] = 0;
            i += 1;
        }
        if i == n {
            break;
        }
    }
    // through the dispatch wrapper, on writes and on reads (dynamic and static)
    for code in [Codes::Gamma, Codes::Delta, Codes::Zeta { k: 3 }] {
        let w = CodesStatsWrapper::<Codes>::new(code);
        let mut wr = BufBitWriter::<BE, _>::new(MemWordWriterVec::new(Vec::<u64>::new()));
        for (i, &v) in ms.iter().enumerate() {
            if i % 2 == 0 {
                DynamicCodeWrite::write(&w, &mut wr, v).unwrap();
            } else {
                StaticCodeWrite::write(&w, &mut wr, v).unwrap();
            }
        }
        let data = wr.into_inner().unwrap().into_inner();
        let (_, st) = w.into_inner();
        if format!("{:?}", st) != reference {
            bad(out, "stats-wrapper", "write", "total", format!("multiset {:?}: statistics gathered on writes through the wrapper differ", ms), ms);
        }
        let w = CodesStatsWrapper::<Codes>::new(code);
        let mut rd = BufBitReader::<BE, _>::new(MemWordReader::new(&data[..]));
        for (i, &v) in ms.iter().enumerate() {
            let x = if i % 2 == 0 { DynamicCodeRead::read(&w, &mut rd).unwrap() } else { StaticCodeRead::read(&w, &mut rd).unwrap() };
            if x != v {
                bad(out, "stats-wrapper", "read", "value", format!("read {} for {}", x, v), ms);
            }
        }
        let st = *w.stats().lock().unwrap();
        if format!("{:?}", st) != reference {
            bad(out, "stats-wrapper", "read", "total", format!("multiset {:?}: statistics gathered on reads through the wrapper differ", ms), ms);
        }
    }
}

/// The statistics types are generic in how many codes of each family they track.  The same oracle
/// for an instantiation other than the default one: every field = sum of reference lengths under
/// the code it denotes, merge = union, best_code = argmin, the wrapper on writes and reads.
fn param_sweep<const Z: usize, const G: usize, const EG: usize, const R: usize, const P: usize>(prop: &str, out: &mut Outcome) {
    let cfg = format!("CodesStats<{},{},{},{},{}>", Z, G, EG, R, P);
    out.cov.configs.insert(cfg.clone());
    let mut t: Vec<(String, Code)> = vec![("unary".to_string(), Code::Unary), ("gamma".into(), Code::Gamma), ("delta".into(), Code::Delta), ("omega".into(), Code::Omega), ("vbyte".into(), Code::VByteBe)];
    for k in 0..Z {
        t.push((format!("zeta[{}]", k), Code::Zeta(k as u32 + 1)));
    }
    for b in 0..G {
        t.push((format!("golomb[{}]", b), Code::Golomb(b as u64 + 1)));
    }
    for k in 0..EG {
        t.push((format!("exp_golomb[{}]", k), Code::ExpGolomb(k as u32)));
    }
    for k in 0..R {
        t.push((format!("rice[{}]", k), Code::Rice(k as u32)));
    }
    for k in 0..P {
        t.push((format!("pi[{}]", k), Code::Pi(k as u32 + 2)));
    }
    let flds = |s: &CodesStats<Z, G, EG, R, P>| -> Vec<u64> {
        let mut f = vec![s.unary, s.gamma, s.delta, s.omega, s.vbyte];
        f.extend(s.zeta);
        f.extend(s.golomb);
        f.extend(s.exp_golomb);
        f.extend(s.rice);
        f.extend(s.pi);
        f
    };
    let mut report = |out: &mut Outcome, op: &str, sym: &str, detail: String| {
        if out.violations.len() < 12 {
            out.violations.push(Violation { property: prop.into(), system: "stats-params".into(), config: cfg.clone(), op_class: op.into(), symptom: sym.into(), detail, replay: json!({"kind": "none"}) });
        }
    };
    let values: [u64; 9] = [0, 1, 5, 63, 64, 1023, 65537, 1 << 32, (1 << 40) + 1];
    let r = std::panic::catch_unwind(std::panic::AssertUnwindSafe(|| {
        let mut a = CodesStats::<Z, G, EG, R, P>::default();
        let mut b = CodesStats::<Z, G, EG, R, P>::default();
        let mut want = vec![0u64; t.len()];
        let mut errs: Vec<(String, String, String)> = vec![];
        for (i, &v) in values.iter().enumerate() {
            if i % 2 == 0 {
                a.update(v);
            } else {
                b.update_many(v, 3);
            }
            let mult = if i % 2 == 0 { 1 } else { 3 };
            for (j, (_, c)) in t.iter().enumerate() {
                want[j] += ref_len(*c, v) as u64 * mult;
            }
        }
        let mut m = a;
        m += b;
        if flds(&m) != want || m.total != 5 + 4 * 3 {
            let got = flds(&m);
            let j = (0..want.len()).find(|&j| got[j] != want[j]);
            errs.push(("update".into(), "total".into(), match j {
                Some(j) => format!("after observing {:?} (odd positions three times), field {} = {}, the codewords of {:?} need {} bits", values, t[j].0, got[j], t[j].1, want[j]),
                None => format!("element count {} instead of 17", m.total),
            }));
        }
        let (bc, cost) = m.best_code();
        let minv = *want.iter().min().unwrap();
        let denotes = code_of_codes(&bc).map(|c| t.iter().position(|(_, tc)| *tc == c || (c == Code::VByteLe && *tc == Code::VByteBe)));
        match denotes {
            Some(Some(j)) if want[j] == minv && cost == minv => {}
            _ => errs.push(("best_code".into(), "value".into(), format!("best_code() = ({:?}, {}), the minimum total is {}", bc, cost, minv))),
        }
        // through the wrapper: writes, then reads
        let w = CodesStatsWrapper::<Codes, Z, G, EG, R, P>::new(Codes::Delta);
        let mut wr = BufBitWriter::<LE, _>::new(MemWordWriterVec::new(Vec::<u64>::new()));
        let mut wantw = vec![0u64; t.len()];
        for (i, &v) in values.iter().enumerate() {
            let n = if i % 2 == 0 { DynamicCodeWrite::write(&w, &mut wr, v).unwrap() } else { StaticCodeWrite::write(&w, &mut wr, v).unwrap() };
            if n as u128 != ref_len(Code::Delta, v) {
                errs.push(("wrapper-write".into(), "length".into(), format!("write of {} through the wrapper returned {}", v, n)));
            }
            for (j, (_, c)) in t.iter().enumerate() {
                wantw[j] += ref_len(*c, v) as u64;
            }
        }
        let data = wr.into_inner().unwrap().into_inner();
        let (_, st) = w.into_inner();
        if flds(&st) != wantw || st.total != values.len() as u64 {
            errs.push(("wrapper-write".into(), "total".into(), "statistics gathered on writes through the wrapper differ from the sum of codeword lengths".to_string()));
        }
        let w = CodesStatsWrapper::<Codes, Z, G, EG, R, P>::new(Codes::Delta);
        let mut rd = BufBitReader::<LE, _>::new(MemWordReader::new(&data[..]));
        for (i, &v) in values.iter().enumerate() {
            let x = if i % 2 == 0 { DynamicCodeRead::read(&w, &mut rd).unwrap() } else { StaticCodeRead::read(&w, &mut rd).unwrap() };
            if x != v {
                errs.push(("wrapper-read".into(), "value".into(), format!("read {} for {}", x, v)));
            }
        }
        let st = *w.stats().lock().unwrap();
        if flds(&st) != wantw || st.total != values.len() as u64 {
            errs.push(("wrapper-read".into(), "total".into(), "statistics gathered on reads through the wrapper differ from the sum of codeword lengths".to_string()));
        }
        errs
    }));
    out.cov.evaluations += 4 * values.len() as u64;
    out.cov.nontrivial += 1;
    match r {
        Ok(errs) => {
            for (op, sym, d) in errs {
                report(out, &op, &sym, d);
            }
        }
        Err(p) => report(out, "update/wrapper", "panic", format!("panicked: {}", crate::util::panic_msg(&p))),
    }
}

pub fn param_sweeps(prop: &str, out: &mut Outcome) {
    param_sweep::<10, 20, 10, 10, 10>(prop, out);
    param_sweep::<10, 20, 10, 20, 10>(prop, out);
    param_sweep::<3, 5, 7, 2, 4>(prop, out);
    param_sweep::<0, 0, 0, 0, 0>(prop, out);
    param_sweep::<1, 0, 2, 0, 1>(prop, out);
    param_sweep::<0, 3, 0, 3, 0>(prop, out);
    param_sweep::<12, 30, 5, 15, 3>(prop, out);
    param_sweep::<1, 1, 1, 1, 1>(prop, out);
}

/// A write that FAILS must not be counted: the wrapper over a writer whose fixed slice is full.
pub fn failing_writes(prop: &str, out: &mut Outcome) {
    out.cov.configs.insert("stats-wrapper/failing-writer".into());
    for dynamic in [false, true] {
        let r = std::panic::catch_unwind(|| {
            let w = CodesStatsWrapper::<Codes>::new(Codes::Gamma);
            let mut wr = BufBitWriter::<BE, _>::new(MemWordWriterSlice::new(vec![0u64; 1]));
            let mut ok = 0u64;
            let mut failed = 0u64;
            let mut okbits = 0u64;
            for i in 0..40u64 {
                let v = 1000 + i;
                let r = if dynamic { DynamicCodeWrite::write(&w, &mut wr, v) } else { StaticCodeWrite::write(&w, &mut wr, v) };
                match r {
                    Ok(n) => {
                        ok += 1;
                        okbits += n as u64;
                    }
                    Err(_) => {
                        failed += 1;
                        if failed == 3 {
                            break;
                        }
                    }
                }
            }
            std::mem::forget(wr);
            let st = *w.stats().lock().unwrap();
            (ok, failed, okbits, st.total, st.gamma)
        });
        out.cov.evaluations += 1;
        out.cov.nontrivial += 1;
        let (sym, detail) = match r {
            Ok((ok, failed, okbits, total, gamma)) => {
                if failed == 0 {
                    ("machinery", "the fixed slice never filled up".to_string())
                } else if total != ok || gamma != okbits {
                    ("total", format!("{} writes succeeded ({} bits) and {} failed on a full slice, but the statistics count {} elements and {} gamma bits", ok, okbits, failed, total, gamma))
                } else {
                    continue;
                }
            }
            Err(p) => ("panic", format!("panicked: {}", crate::util::panic_msg(&p))),
        };
        out.violations.push(Violation { property: prop.into(), system: "stats-wrapper".into(), config: if dynamic { "dynamic".into() } else { "static".into() }, op_class: "write".into(), symptom: sym.into(), detail, replay: json!({"kind": "none"}) });
    }
}

/// Large multiplicities: update_many(v, count) with counts around and beyond 2^32 (totals still fit 64 bits).
pub fn big_counts(prop: &str, out: &mut Outcome) {
    out.cov.configs.insert("stats/big-counts".into());
    let tr = tracked();
    for &v in &[0u64, 1, 5, 63, 1000] {
        for &count in &[1_000_000_000u64, (1 << 32) - 1, 1 << 32, (1 << 32) + 7, 1 << 40] {
            let r = std::panic::catch_unwind(|| {
                let mut s = Stats::default();
                s.update_many(v, count);
                (fields(&s), s.total)
            });
            out.cov.evaluations += 1;
            out.cov.nontrivial += 1;
            match r {
                Ok((got, total)) => {
                    let bad = (0..tr.len()).find(|&j| got[j] as u128 != ref_len(tr[j].1, v) * count as u128);
                    if let Some(j) = bad {
                        bad_v(out, prop, "update_many", "total", format!("update_many({}, {}): field {} = {}, {} codewords of {} bits need {}", v, count, tr[j].0, got[j], count, ref_len(tr[j].1, v), ref_len(tr[j].1, v) * count as u128));
                    } else if total != count {
                        bad_v(out, prop, "update_many", "total", format!("update_many({}, {}): element count {}", v, count, total));
                    }
                }
                Err(p) => bad_v(out, prop, "update_many", "panic", format!("update_many({}, {}) panicked: {}", v, count, crate::util::panic_msg(&p))),
            }
        }
    }
}

fn bad_v(out: &mut Outcome, prop: &str, op: &str, sym: &str, detail: String) {
    if out.violations.len() < 40 {
        out.violations.push(Violation { property: prop.into(), system: "stats".into(), config: "seq".into(), op_class: op.into(), symptom: sym.into(), detail, replay: json!({"kind": "none"}) });
    }
}

/// Supplementary FREE-RUNNING pass (real OS threads, no controlled scheduler: a sample, not an
/// exploration).  loom only sees the synchronisation primitives that were routed to it (the wrapper's
/// Mutex); shared state kept in anything else would be invisible to it.  Totals are deterministic, so
/// this pass cannot raise a false alarm; it can only miss.
pub fn free_running(prop: &str, out: &mut Outcome) {
    out.cov.configs.insert("stats-wrapper/free-running-threads".into());
    const THREADS: u64 = 4;
    const PER: u64 = 60_000;
    for round in 0..3u64 {
        let w = std::sync::Arc::new(CodesStatsWrapper::<Codes>::new(Codes::Gamma));
        let hs: Vec<_> = (0..THREADS)
            .map(|t| {
                let w = w.clone();
                std::thread::spawn(move || {
                    let mut wr = BufBitWriter::<BE, _>::new(MemWordWriterVec::new(Vec::<u64>::new()));
                    for i in 0..PER {
                        // runs of equal values of different lengths, different values per thread
                        let v = 3 + t * 1000 + ((i / (1 + (t + round) % 3)) % 5);
                        DynamicCodeWrite::write(&*w, &mut wr, v).unwrap();
                    }
                })
            })
            .collect();
        let mut panicked = false;
        for h in hs {
            panicked |= h.join().is_err();
        }
        out.cov.evaluations += THREADS * PER;
        if panicked {
            bad_v(out, prop, "wrapper-update", "panic", "a thread writing through the shared wrapper panicked".into());
            return;
        }
        let st = *w.stats().lock().unwrap();
        let mut want = Stats::default();
        for t in 0..THREADS {
            for i in 0..PER {
                want.update(3 + t * 1000 + ((i / (1 + (t + round) % 3)) % 5));
            }
        }
        if format!("{:?}", st) != format!("{:?}", want) {
            let (g, wv) = (fields(&st), fields(&want));
            let tr = tracked();
            let j = (0..g.len()).find(|&j| g[j] != wv[j]);
            bad_v(out, prop, "wrapper-update", "total", format!("{} real threads x {} writes through one wrapper (free-running): {}", THREADS, PER, match j {
                Some(j) => format!("field {} = {}, the values written need {}", tr[j].0, g[j], wv[j]),
                None => format!("element count {} instead of {}", st.total, want.total),
            }));
            return;
        }
    }
}

pub fn c15(ctx: &Ctx) -> (CheckMeta, Outcome) {
    // cost table: reference length, cross-checked against the real writer where the codeword is short
    let tr = tracked();
    let mut pre = Outcome::new();
    if crate::pool::is_primary() {
        for (_, c) in &tr {
            for &v in &ALPHA {
                if let Some(n) = actual_size(*c, v) {
                    pre.cov.traces_validated += 1;
                    if n as u128 != ref_len(*c, v) {
                        bad(&mut pre, "stats", "cost", "length", format!("real writer needs {} bits for {:?}({}) but the reference says {}", n, c, v, ref_len(*c, v)), &[v]);
                    }
                }
            }
        }
    }
    // other instantiations of the generic statistics types, and writes that fail
    if crate::pool::is_primary() {
        param_sweeps("C15", &mut pre);
        failing_writes("C15", &mut pre);
        big_counts("C15", &mut pre);
        free_running("C15", &mut pre);
    }
    // best_code over the whole field space: for EVERY tracked field, statistics in which that field
    // is the strict minimum (built through the public fields) must report the code the field denotes
    if crate::pool::is_primary() {
        let tr = tracked();
        for (i, (name, code)) in tr.iter().enumerate() {
            for (hi, lo) in [(1000u64, 999u64), (u64::MAX, 0), (50, 7)] {
                let mut s = Stats::default();
                s.total = 3;
                let set = |s: &mut Stats, j: usize, val: u64| {
                    let mut k = j;
                    if k < 5 {
                        match k {
                            0 => s.unary = val,
                            1 => s.gamma = val,
                            2 => s.delta = val,
                            3 => s.omega = val,
                            _ => s.vbyte = val,
                        }
                        return;
                    }
                    k -= 5;
                    if k < 10 {
                        s.zeta[k] = val;
                        return;
                    }
                    k -= 10;
                    if k < 20 {
                        s.golomb[k] = val;
                        return;
                    }
                    k -= 20;
                    if k < 10 {
                        s.exp_golomb[k] = val;
                        return;
                    }
                    k -= 10;
                    if k < 10 {
                        s.rice[k] = val;
                        return;
                    }
                    k -= 10;
                    s.pi[k] = val;
                };
                for j in 0..tr.len() {
                    set(&mut s, j, hi);
                }
                set(&mut s, i, lo);
                pre.cov.evaluations += 1;
                pre.cov.nontrivial += 1;
                let (bc, bcost) = s.best_code();
                let got = code_of_codes(&bc);
                if bcost != lo || got != Some(*code) {
                    bad(&mut pre, "stats", "best_code", "value", format!("statistics whose strict minimum is field {} (= {:?}, {} bits; all others {}): best_code() = ({:?}, {})", name, code, lo, hi, bc, bcost), &[]);
                }
            }
        }
    }
    // single-value sweep: one observation of every value of the boundary grids of all tracked codes
    // (every 2^i +- 2, multiples of every Golomb modulus around every power of two, step points, seeded
    // extras) and of 0..4096 must add exactly the reference length to every field
    {
        let tr = tracked();
        let mut vals: std::collections::BTreeSet<u64> = (0..4096u64).collect();
        for (_, c) in &tr {
            vals.extend(crate::grid::boundary_values_raw(*c, ctx.seed, 12).into_iter().filter(|&v| v < u64::MAX - 1));
        }
        let vals: Vec<u64> = vals.into_iter().collect();
        let mut tasks: Vec<Task> = vec![];
        for chunk in vals.chunks(512) {
            let chunk: Vec<u64> = chunk.to_vec();
            tasks.push(Box::new(move || {
                let mut out = Outcome::new();
                let tr = tracked();
                for &v in &chunk {
                    out.cov.evaluations += 1;
                    if v >= 4096 {
                        out.cov.nontrivial += 1;
                    }
                    let r = std::panic::catch_unwind(|| {
                        let mut s = Stats::default();
                        s.update(v);
                        s
                    });
                    match r {
                        Ok(s) => {
                            let f = fields(&s);
                            for (i, (name, code)) in tr.iter().enumerate() {
                                let want = ref_len(*code, v) as u64;
                                if f[i] != want {
                                    bad(&mut out, "stats", "update", "total", format!("after observing {} once, field {} = {} but {:?} needs {} bits", v, name, f[i], code, want), &[v]);
                                    break;
                                }
                            }
                        }
                        Err(p) => bad(&mut out, "stats", "update", "panic", format!("update({}) panicked: {}", v, crate::util::panic_msg(&p)), &[v]),
                    }
                }
                out
            }));
        }
        pre.merge(run_all(tasks, threads()));
    }
    let cost = |c: Code, v: u64| ref_len(c, v) as u64;
    // all multisets of size <= 4 over the alphabet
    let mut multisets: Vec<Vec<u64>> = vec![vec![]];
    fn rec(start: usize, cur: &mut Vec<u64>, out: &mut Vec<Vec<u64>>, max: usize) {
        if cur.len() == max {
            return;
        }
        for i in start..ALPHA.len() {
            cur.push(ALPHA[i]);
            out.push(cur.clone());
            rec(i, cur, out, max);
            cur.pop();
        }
    }
    rec(0, &mut vec![], &mut multisets, 4);
    let mut tasks: Vec<Task> = vec![];
    let thorough = ctx.thorough;
    for chunk in multisets.chunks(20) {
        let chunk: Vec<Vec<u64>> = chunk.to_vec();
        tasks.push(Box::new(move || {
            let mut out = Outcome::new();
            out.cov.configs.insert("sequential".into());
            for (i, ms) in chunk.iter().enumerate() {
                check_multiset(ms, &cost, thorough || ms.len() <= 3 || i % 4 == 0, &mut out);
            }
            if let Some(ms) = chunk.iter().find(|m| m.len() == 3) {
                let mut s = Stats::default();
                for &v in ms {
                    s.update(v);
                }
                out.cov.sample(json!({"multiset": ms, "best_code": format!("{:?}", s.best_code())}));
            }
            out
        }));
    }
    let mut out = run_all(tasks, threads());
    out.merge(pre);
    // concurrent half: loom harness (separate binary built with --cfg dsi_bitstream_verif)
    if crate::pool::is_primary() {
        match std::env::var("DSIV_LOOM_CMD") {
            Ok(cmd) => {
                let o = std::process::Command::new(&cmd).arg(&ctx.tier).output();
                match o {
                    Ok(o) if o.status.success() => {
                        let text = String::from_utf8_lossy(&o.stdout);
                        let line = text.lines().rev().find(|l| l.starts_with('{')).unwrap_or("{}");
                        let d: serde_json::Value = serde_json::from_str(line).unwrap_or(json!({}));
                        let ex = d["executions"].as_u64().unwrap_or(0);
                        if ex == 0 {
                            println!("MACHINERY: loom harness reported no executions: {}", text);
                            std::process::exit(3);
                        }
                        out.cov.states += ex;
                        out.cov.transitions += ex;
                        out.cov.traces_validated += ex;
                        out.cov.configs.insert("loom".into());
                        out.cov.extra.insert("loom_models".into(), d["models"].clone());
                        out.cov.add_extra("loom_executions", ex);
                        out.cov.sample(json!({"loom_model": d["models"][1]}));
                        for vv in d["violations"].as_array().cloned().unwrap_or_default() {
                            out.violations.push(Violation {
                                property: "C15".into(),
                                system: "loom".into(),
                                config: "threads".into(),
                                op_class: "wrapper-update".into(),
                                symptom: "interleaving".into(),
                                detail: vv.as_str().unwrap_or("").to_string(),
                                replay: json!({"kind": "loom", "cmd": cmd}),
                            });
                        }
                    }
                    Ok(o) => {
                        println!("MACHINERY: loom harness failed: {} {}", String::from_utf8_lossy(&o.stdout), String::from_utf8_lossy(&o.stderr));
                        std::process::exit(2);
                    }
                    Err(e) => {
                        println!("MACHINERY: cannot run the loom harness: {}", e);
                        std::process::exit(2);
                    }
                }
            }
            Err(_) => {
                println!("MACHINERY: DSIV_LOOM_CMD not set (run through ./check)");
                std::process::exit(2);
            }
        }
    }
    let meta = CheckMeta {
        property: "C15".into(),
        level: "model_checking".into(),
        rule: "concurrent half: loom (the wrapper's Mutex is loom's under --cfg dsi_bitstream_verif) explores every interleaving, within the preemption bound stated per model, of 2-3 threads performing 1-3 reads/writes through ONE shared CodesStatsWrapper; after join the statistics must equal the sequential result (states = executions explored). Sequential half: eight instantiations of the generic statistics types (default, unequal family sizes, zero-sized families, larger ones) with the same oracle through update/update_many/merge/best_code and the wrapper on writes and reads; writes that FAIL (full fixed slice) through the wrapper must not be counted; update_many with multiplicities 10^9, 2^32-1, 2^32, 2^32+7, 2^40; a supplementary FREE-RUNNING pass (4 real threads x 60 000 writes x 3 rounds through one wrapper; a sample, not an exploration - it exists because loom only sees the primitives routed to it); a single-value sweep (every value below 4096 and the boundary grids of all 55 tracked codes, incl. multiples of every Golomb modulus around every power of two: each field grows by exactly the reference length); ALL 1001 multisets of size <= 4 over the 10-value alphabet {0,1,63,64,1023,1024,65535,65537,2^32,2^40+1}: every public total = sum of reference codeword lengths (cross-checked against the real writer's actual sizes where the codeword is <= 4096 bits) under the code/parameter the field denotes; total count; best_code() = argmin with that cost and re-encoding with the returned code costs exactly that; for EVERY one of the 55 tracked fields, statistics built through the public fields in which that field is the strict minimum must report the code that field denotes; update_many with multiplicities; every split into <= 3 parts merged by add, +=, +, sum and a reordered +; statistics gathered by CodesStatsWrapper on writes and on reads (dynamic and static dispatch) for three wrapped codes".into(),
        assumptions: vec!["loom models sequentially consistent executions plus its C11 memory model for the Mutex; preemption bound 3 (unbounded for the smallest models)".into()],
    };
    (meta, out)
}
