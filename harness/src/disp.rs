//! Dispatch mechanisms of the library, driven by the *name* of the code.
//! The mapping name -> identifier constant is written here from the constant
//! names in `code_consts` (the names are the specification).

use crate::model::Code;
use dsi_bitstream::dispatch::code_consts as cc;
use dsi_bitstream::prelude::*;

pub const N_CONSTS: usize = 51;

/// library `Codes` value naming the model code (None: not in the enumeration)
pub fn codes_of(code: Code) -> Option<Codes> {
    Some(match code {
        Code::Unary => Codes::Unary,
        Code::Gamma => Codes::Gamma,
        Code::Delta => Codes::Delta,
        Code::Omega => Codes::Omega,
        Code::VByteBe => Codes::VByteBe,
        Code::VByteLe => Codes::VByteLe,
        Code::Zeta(k) => Codes::Zeta { k: k as usize },
        Code::Pi(k) => Codes::Pi { k: k as usize },
        Code::Rice(k) => Codes::Rice { log2_b: k as usize },
        Code::Golomb(b) => Codes::Golomb { b: b as usize },
        Code::ExpGolomb(k) => Codes::ExpGolomb { k: k as usize },
        Code::MinBin(_) => return None,
    })
}

/// identifier constant *named* after the code, by the names in `code_consts`
pub fn const_id(code: Code) -> Option<usize> {
    const Z: [usize; 10] = [cc::ZETA1, cc::ZETA2, cc::ZETA3, cc::ZETA4, cc::ZETA5, cc::ZETA6, cc::ZETA7, cc::ZETA8, cc::ZETA9, cc::ZETA10];
    const R: [usize; 11] = [cc::RICE0, cc::RICE1, cc::RICE2, cc::RICE3, cc::RICE4, cc::RICE5, cc::RICE6, cc::RICE7, cc::RICE8, cc::RICE9, cc::RICE10];
    const P: [usize; 11] = [cc::PI0, cc::PI1, cc::PI2, cc::PI3, cc::PI4, cc::PI5, cc::PI6, cc::PI7, cc::PI8, cc::PI9, cc::PI10];
    const G: [usize; 10] = [cc::GOLOMB1, cc::GOLOMB2, cc::GOLOMB3, cc::GOLOMB4, cc::GOLOMB5, cc::GOLOMB6, cc::GOLOMB7, cc::GOLOMB8, cc::GOLOMB9, cc::GOLOMB10];
    const X: [usize; 11] = [
        cc::EXP_GOLOMB0, cc::EXP_GOLOMB1, cc::EXP_GOLOMB2, cc::EXP_GOLOMB3, cc::EXP_GOLOMB4, cc::EXP_GOLOMB5, cc::EXP_GOLOMB6, cc::EXP_GOLOMB7,
        cc::EXP_GOLOMB8, cc::EXP_GOLOMB9, cc::EXP_GOLOMB10,
    ];
    Some(match code {
        Code::Unary => cc::UNARY,
        Code::Gamma => cc::GAMMA,
        Code::Delta => cc::DELTA,
        Code::Omega => cc::OMEGA,
        Code::VByteBe => cc::VBYTE_BE,
        Code::VByteLe => cc::VBYTE_LE,
        Code::Zeta(k) if (1..=10).contains(&k) => Z[k as usize - 1],
        Code::Rice(k) if k <= 10 => R[k as usize],
        Code::Pi(k) if k <= 10 => P[k as usize],
        Code::Golomb(b) if (1..=10).contains(&b) => G[b as usize - 1],
        Code::ExpGolomb(k) if k <= 10 => X[k as usize],
        _ => return None,
    })
}

/// All (name, id) pairs of code_consts, for the complete sweep over identifiers.
pub fn all_named_consts() -> Vec<(Code, usize)> {
    let mut v = vec![
        (Code::Unary, cc::UNARY),
        (Code::Gamma, cc::GAMMA),
        (Code::Delta, cc::DELTA),
        (Code::Omega, cc::OMEGA),
        (Code::VByteBe, cc::VBYTE_BE),
        (Code::VByteLe, cc::VBYTE_LE),
    ];
    for k in 1..=10 {
        v.push((Code::Zeta(k), const_id(Code::Zeta(k)).unwrap()));
    }
    for k in 0..=10 {
        v.push((Code::Rice(k), const_id(Code::Rice(k)).unwrap()));
        v.push((Code::Pi(k), const_id(Code::Pi(k)).unwrap()));
        v.push((Code::ExpGolomb(k), const_id(Code::ExpGolomb(k)).unwrap()));
    }
    for b in 1..=10 {
        v.push((Code::Golomb(b), const_id(Code::Golomb(b)).unwrap()));
    }
    v
}

macro_rules! with_const {
    ($id:expr, $c:ident, $body:expr, $else:expr) => {{
        macro_rules! arm {
            ($n:literal) => {{
                let $c = ConstCode::<$n>;
                $body
            }};
        }
        match $id {
            0 => arm!(0), 1 => arm!(1), 2 => arm!(2), 3 => arm!(3), 4 => arm!(4), 5 => arm!(5), 6 => arm!(6), 7 => arm!(7), 8 => arm!(8), 9 => arm!(9),
            10 => arm!(10), 11 => arm!(11), 12 => arm!(12), 13 => arm!(13), 14 => arm!(14), 15 => arm!(15), 16 => arm!(16), 17 => arm!(17), 18 => arm!(18),
            19 => arm!(19), 20 => arm!(20), 21 => arm!(21), 22 => arm!(22), 23 => arm!(23), 24 => arm!(24), 25 => arm!(25), 26 => arm!(26), 27 => arm!(27),
            28 => arm!(28), 29 => arm!(29), 30 => arm!(30), 31 => arm!(31), 32 => arm!(32), 33 => arm!(33), 34 => arm!(34), 35 => arm!(35), 36 => arm!(36),
            37 => arm!(37), 38 => arm!(38), 39 => arm!(39), 40 => arm!(40), 41 => arm!(41), 42 => arm!(42), 43 => arm!(43), 44 => arm!(44), 45 => arm!(45),
            46 => arm!(46), 47 => arm!(47), 48 => arm!(48), 49 => arm!(49), 50 => arm!(50),
            _ => $else,
        }
    }};
}

pub const RKINDS: [&str; 8] = [
    "Codes/dynamic",
    "Codes/static",
    "FuncCodeReader",
    "Factory.get()", // handled by the caller where a factory exists; here same as FuncCodeReader::new_with_func path
    "Stats<Codes>/dynamic",
    "ConstCode/dynamic",
    "Stats<FuncCodeReader>/static",
    "Stats<ConstCode>/static",
];

/// Read one value through dispatcher `kind`. None = this dispatcher does not support the code.
pub fn disp_read<E: Endianness, R: CodesRead<E>>(r: &mut R, kind: u8, code: Code) -> Option<Result<u64, String>> {
    let codes = codes_of(code)?;
    let m = |x: Result<u64, R::Error>| x.map_err(|e| format!("{e}"));
    match kind {
        0 => Some(m(DynamicCodeRead::read(&codes, r))),
        1 => Some(m(<Codes as StaticCodeRead<E, R>>::read(&codes, r))),
        2 | 3 => {
            let f = FuncCodeReader::<E, R>::new(codes).ok()?;
            if kind == 3 {
                // same function pointer, re-wrapped as the factory's get() does
                let g = FuncCodeReader::<E, R>::new_with_func(f.get_func());
                Some(m(StaticCodeRead::read(&g, r)))
            } else {
                Some(m(StaticCodeRead::read(&f, r)))
            }
        }
        4 => {
            let w = CodesStatsWrapper::<Codes>::new(codes);
            Some(m(DynamicCodeRead::read(&w, r)))
        }
        5 => {
            let id = const_id(code)?;
            with_const!(id, c, Some(m(DynamicCodeRead::read(&c, r))), None)
        }
        6 => {
            let f = FuncCodeReader::<E, R>::new(codes).ok()?;
            let w = CodesStatsWrapper::<FuncCodeReader<E, R>>::new(f);
            Some(m(StaticCodeRead::read(&w, r)))
        }
        7 => {
            let id = const_id(code)?;
            with_const!(
                id,
                c,
                {
                    let w = CodesStatsWrapper::<_>::new(c);
                    Some(m(<CodesStatsWrapper<_> as StaticCodeRead<E, R>>::read(&w, r)))
                },
                None
            )
        }
        _ => None,
    }
}

pub const WKINDS: [&str; 7] = [
    "Codes/dynamic",
    "Codes/static",
    "FuncCodeWriter",
    "Stats<Codes>/dynamic",
    "ConstCode/dynamic",
    "Stats<FuncCodeWriter>/static",
    "Stats<ConstCode>/static",
];

pub fn disp_write<E: Endianness, W: CodesWrite<E>>(w: &mut W, kind: u8, code: Code, v: u64) -> Option<Result<usize, String>> {
    let codes = codes_of(code)?;
    let m = |x: Result<usize, W::Error>| x.map_err(|e| format!("{e}"));
    match kind {
        0 => Some(m(DynamicCodeWrite::write(&codes, w, v))),
        1 => Some(m(<Codes as StaticCodeWrite<E, W>>::write(&codes, w, v))),
        2 => {
            let f = FuncCodeWriter::<E, W>::new(codes).ok()?;
            Some(m(StaticCodeWrite::write(&f, w, v)))
        }
        3 => {
            let s = CodesStatsWrapper::<Codes>::new(codes);
            Some(m(DynamicCodeWrite::write(&s, w, v)))
        }
        4 => {
            let id = const_id(code)?;
            with_const!(id, c, Some(m(DynamicCodeWrite::write(&c, w, v))), None)
        }
        5 => {
            let f = FuncCodeWriter::<E, W>::new(codes).ok()?;
            let s = CodesStatsWrapper::<FuncCodeWriter<E, W>>::new(f);
            Some(m(StaticCodeWrite::write(&s, w, v)))
        }
        6 => {
            let id = const_id(code)?;
            with_const!(
                id,
                c,
                {
                    let s = CodesStatsWrapper::<_>::new(c);
                    Some(m(<CodesStatsWrapper<_> as StaticCodeWrite<E, W>>::write(&s, w, v)))
                },
                None
            )
        }
        _ => None,
    }
}

pub const LKINDS: [&str; 3] = ["Codes::len", "FuncCodeLen", "ConstCode::len"];

pub fn disp_len(kind: u8, code: Code, v: u64) -> Option<usize> {
    let codes = codes_of(code)?;
    match kind {
        0 => Some(CodeLen::len(&codes, v)),
        1 => {
            let f = FuncCodeLen::new(codes).ok()?;
            Some(CodeLen::len(&f, v))
        }
        2 => {
            let id = const_id(code)?;
            with_const!(id, c, Some(CodeLen::len(&c, v)), None)
        }
        _ => None,
    }
}

/// Direct trait-method read of `code` (the thing every dispatcher must agree with).
pub fn direct_read<E: Endianness, R: CodesRead<E>>(r: &mut R, code: Code) -> Result<u64, String> {
    let m = |x: Result<u64, R::Error>| x.map_err(|e| format!("{e}"));
    match code {
        Code::Unary => m(r.read_unary()),
        Code::Gamma => m(r.read_gamma()),
        Code::Delta => m(r.read_delta()),
        Code::Omega => m(r.read_omega()),
        Code::Zeta(3) => m(r.read_zeta3()),
        Code::Zeta(k) => m(r.read_zeta(k as usize)),
        Code::Pi(k) => m(r.read_pi(k as usize)),
        Code::Rice(k) => m(r.read_rice(k as usize)),
        Code::Golomb(b) => m(r.read_golomb(b)),
        Code::ExpGolomb(k) => m(r.read_exp_golomb(k as usize)),
        Code::MinBin(u) => m(r.read_minimal_binary(u)),
        Code::VByteBe => m(r.read_vbyte_be()),
        Code::VByteLe => m(r.read_vbyte_le()),
    }
}

/// Direct trait-method write of `code`.
pub fn direct_write<E: Endianness, W: CodesWrite<E>>(w: &mut W, code: Code, v: u64) -> Result<usize, String> {
    let m = |x: Result<usize, W::Error>| x.map_err(|e| format!("{e}"));
    match code {
        Code::Unary => m(w.write_unary(v)),
        Code::Gamma => m(w.write_gamma(v)),
        Code::Delta => m(w.write_delta(v)),
        Code::Omega => m(w.write_omega(v)),
        Code::Zeta(3) => m(w.write_zeta3(v)),
        Code::Zeta(k) => m(w.write_zeta(v, k as usize)),
        Code::Pi(k) => m(w.write_pi(v, k as usize)),
        Code::Rice(k) => m(w.write_rice(v, k as usize)),
        Code::Golomb(b) => m(w.write_golomb(v, b)),
        Code::ExpGolomb(k) => m(w.write_exp_golomb(v, k as usize)),
        Code::MinBin(u) => m(w.write_minimal_binary(v, u)),
        Code::VByteBe => m(w.write_vbyte_be(v)),
        Code::VByteLe => m(w.write_vbyte_le(v)),
    }
}

/// Direct length function of `code` (library).
pub fn direct_len(code: Code, v: u64) -> usize {
    match code {
        Code::Unary => v as usize + 1,
        Code::Gamma => len_gamma(v),
        Code::Delta => len_delta(v),
        Code::Omega => len_omega(v),
        Code::Zeta(k) => len_zeta(v, k as usize),
        Code::Pi(k) => len_pi(v, k as usize),
        Code::Rice(k) => len_rice(v, k as usize),
        Code::Golomb(b) => len_golomb(v, b),
        Code::ExpGolomb(k) => len_exp_golomb(v, k as usize),
        Code::MinBin(u) => len_minimal_binary(v, u),
        Code::VByteBe | Code::VByteLe => bit_len_vbyte(v),
    }
}
