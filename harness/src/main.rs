#![allow(dead_code, unused_imports, clippy::all)]
mod disp;
mod grid;
mod streams;
mod images;
mod model;
mod pool;
mod props;
mod rd;
mod rdsys;
mod report;
mod util;
mod watchdog;
mod wr;
mod wrsys;

use std::time::Instant;

pub struct Ctx {
    pub tier: String,
    pub seed: u64,
    pub verif_dir: String,
    pub thorough: bool,
    /// per reader kind: [gamma, delta, zeta3] table usable (no diagnostic at construction)
    pub diag: std::collections::BTreeMap<String, [bool; 3]>,
}

fn main() {
    let args: Vec<String> = std::env::args().collect();
    if args.len() < 2 {
        eprintln!("usage: dsiv check <ID> <quick|thorough> | replay <file> | probe-diag");
        std::process::exit(2);
    }
    match args[1].as_str() {
        "probe-diag" => {
            props::diag::child();
        }
        "replay" => {
            std::panic::set_hook(Box::new(|_| {}));
            let code = props::replay_file(&args[2]);
            std::process::exit(code);
        }
        "check" => {
            let id = args[2].clone();
            let tier = std::env::var("VERIF_TIER").ok().filter(|s| !s.is_empty()).unwrap_or_else(|| args.get(3).cloned().unwrap_or("quick".into()));
            let tier = if args.len() > 3 { args[3].clone() } else { tier };
            let seed: u64 = std::env::var("VERIF_SEED").ok().and_then(|s| s.parse().ok()).unwrap_or(0);
            let verif_dir = std::env::var("VERIF_DIR").unwrap_or("/verif".into());
            let diag = props::diag::probe();
            // panics inside the library are observations (caught); panics in the harness itself are
            // machinery failures and must be visible
            std::panic::set_hook(Box::new(|info| {
                if let Some(l) = info.location() {
                    if !l.file().contains("/repo/") && !l.file().contains(".cargo/registry") && !l.file().contains("/rustc/") {
                        println!("MACHINERY: harness panic at {}:{}: {}", l.file(), l.line(), info);
                        std::process::exit(3);
                    }
                }
            }));
            util::silence_stderr();
            let ctx = Ctx { thorough: tier == "thorough", tier, seed, verif_dir, diag };
            let vd = ctx.verif_dir.clone();
            let idc = id.clone();
            watchdog::start(30, move |desc| {
                // a transition did not return: write a replay and report it
                let _ = std::fs::create_dir_all(format!("{}/replays", vd));
                let path = format!("{}/replays/{}-hang.json", vd, idc);
                let _ = std::fs::write(&path, &desc);
                println!("VIOLATION property={} replay={}", idc, path);
                println!("  an operation did not return within 30 s (non-termination); see replay for the state");
                std::process::exit(1);
            });
            let t0 = Instant::now();
            let (meta, out) = props::run(&id, &ctx);
            let code = report::finish(&meta, &ctx.tier, ctx.seed, out, t0.elapsed().as_secs_f64(), &ctx.verif_dir);
            std::process::exit(code);
        }
        _ => {
            eprintln!("unknown command");
            std::process::exit(2);
        }
    }
}
