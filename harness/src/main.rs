#![allow(dead_code, unused_imports, clippy::all)]
mod disp;
mod grid;
mod streams;
mod images;
mod model;
mod pool;
mod props;
mod rd;
mod rdsys;
mod report;
mod util;
mod watchdog;
mod wr;
mod wrsys;

use std::time::Instant;

pub struct Ctx {
    pub tier: String,
    pub seed: u64,
    pub verif_dir: String,
    pub thorough: bool,
    /// per reader kind: [gamma, delta, zeta3] table usable (no diagnostic at construction)
    pub diag: std::collections::BTreeMap<String, [bool; 3]>,
}

fn main() {
    let args: Vec<String> = std::env::args().collect();
    if args.len() < 2 {
        eprintln!("usage: dsiv check <ID> <quick|thorough> | replay <file> | probe-diag");
        std::process::exit(2);
    }
    match args[1].as_str() {
        "probe-diag" => {
            props::diag::child();
        }
        "replay" => {
            std::panic::set_hook(Box::new(|_| {}));
            let code = props::replay_file(&args[2]);
            std::process::exit(code);
        }
        "check" => {
            // parent: split the work over shard processes (isolation: a hang, abort or crash in
            // one shard cannot take the other results with it)
            let id = args[2].clone();
            let tier = if args.len() > 3 { args[3].clone() } else { std::env::var("VERIF_TIER").ok().filter(|s| !s.is_empty()).unwrap_or("quick".into()) };
            let seed: u64 = std::env::var("VERIF_SEED").ok().and_then(|s| s.parse().ok()).unwrap_or(0);
            let verif_dir = std::env::var("VERIF_DIR").unwrap_or("/verif".into());
            let diag = props::diag::probe();
            let t0 = Instant::now();
            let nthreads = pool::threads();
            let nshards = std::env::var("VERIF_SHARDS").ok().and_then(|s| s.parse().ok()).unwrap_or(nthreads * 3);
            let exe = std::env::current_exe().unwrap();
            // other build variants of the harness (features / profiles) whose shards are run too
            let mut bins: Vec<(String, std::path::PathBuf)> = vec![("".into(), exe.clone())];
            if let Ok(vs) = std::env::var("DSIV_VARIANTS") {
                for v in vs.split_whitespace() {
                    if let Some((name, path)) = v.split_once('=') {
                        bins.push((name.to_string(), path.into()));
                    }
                }
            }
            let tmp = format!("{}/harness/target/shards-{}-{}", verif_dir, id, std::process::id());
            let _ = std::fs::create_dir_all(&tmp);
            let diag_json = serde_json::to_string(&diag).unwrap();
            let next = std::sync::Mutex::new(0usize);
            let results: std::sync::Mutex<Vec<(usize, Result<String, String>)>> = std::sync::Mutex::new(vec![]);
            let total_jobs = nshards * bins.len();
            std::thread::scope(|sc| {
                for _ in 0..nthreads.min(total_jobs) {
                    sc.spawn(|| loop {
                        let job = {
                            let mut n = next.lock().unwrap();
                            if *n >= total_jobs {
                                break;
                            }
                            *n += 1;
                            *n - 1
                        };
                        let (vname, vexe) = &bins[job / nshards];
                        let i = job % nshards;
                        let outfile = format!("{}/{}-{}.json", tmp, job / nshards, i);
                        let st = std::process::Command::new(vexe)
                            .args(["shard", &id, &tier, &i.to_string(), &nshards.to_string(), &outfile])
                            .env("DSIV_VARIANT", vname)
                            .env("DSIV_DIAG", &diag_json)
                            .env("VERIF_THREADS", "1")
                            .env("VERIF_SEED", seed.to_string())
                            .stderr(std::process::Stdio::null())
                            .output();
                        let r = match st {
                            Ok(o) => match std::fs::read_to_string(&outfile) {
                                Ok(s) if o.status.success() => Ok(s),
                                _ => Err(format!("shard {} died ({:?}) {}", i, o.status, String::from_utf8_lossy(&o.stdout).chars().take(2000).collect::<String>())),
                            },
                            Err(e) => Err(format!("cannot spawn shard {}: {}", i, e)),
                        };
                        results.lock().unwrap().push((job, r));
                    });
                }
            });
            let mut results = results.into_inner().unwrap();
            results.sort_by_key(|x| x.0);
            let mut total = report::Outcome::new();
            let mut meta: Option<report::CheckMeta> = None;
            let mut per_variant: Vec<(String, report::Outcome)> = bins.iter().map(|b| (b.0.clone(), report::Outcome::new())).collect();
            for (job, r) in results {
                match r {
                    Ok(s) => {
                        let v: serde_json::Value = serde_json::from_str(&s).expect("shard output");
                        if meta.is_none() && !v["meta"].is_null() {
                            meta = serde_json::from_value(v["meta"].clone()).ok();
                        }
                        let o: report::Outcome = serde_json::from_value(v["outcome"].clone()).expect("shard outcome");
                        let o2: report::Outcome = serde_json::from_value(v["outcome"].clone()).expect("shard outcome");
                        per_variant[job / nshards].1.merge(o2);
                        total.merge(o);
                    }
                    Err(e) => {
                        println!("MACHINERY: {}", e);
                        let _ = std::fs::remove_dir_all(&tmp);
                        std::process::exit(3);
                    }
                }
            }
            let _ = std::fs::remove_dir_all(&tmp);
            let meta = meta.expect("no shard produced the check's metadata");
            if id == "C19" {
                let pv: Vec<(String, std::collections::BTreeMap<String, serde_json::Value>)> =
                    per_variant.iter().map(|(n, o)| (if n.is_empty() { "default".to_string() } else { n.clone() }, o.cov.extra.clone())).collect();
                // the merged extras are sums over variants: drop them, keep the per-variant table
                for k in ["digest_writer_model_states", "digest_reader_model_transitions", "reader_model_transitions", "digest_stream_evaluations", "writer_model_states"] {
                    total.cov.extra.remove(k);
                }
                props::builds::post_merge(&pv, &mut total);
            }
            let code = report::finish(&meta, &tier, seed, total, t0.elapsed().as_secs_f64(), &verif_dir);
            std::process::exit(code);
        }
        "shard" => {
            let id = args[2].clone();
            let tier = args[3].clone();
            let i: usize = args[4].parse().unwrap();
            let n: usize = args[5].parse().unwrap();
            let outfile = args[6].clone();
            let seed: u64 = std::env::var("VERIF_SEED").ok().and_then(|s| s.parse().ok()).unwrap_or(0);
            let verif_dir = std::env::var("VERIF_DIR").unwrap_or("/verif".into());
            let diag = match std::env::var("DSIV_DIAG") {
                Ok(s) => serde_json::from_str(&s).unwrap(),
                Err(_) => props::diag::probe(),
            };
            *pool::SHARD.lock().unwrap() = Some((i, n));
            if std::env::var("VERIF_WALL_CAP").is_err() {
                // per-(configuration, image) wall cap of the explorers: generous in the thorough tier
                std::env::set_var("VERIF_WALL_CAP", if tier == "thorough" { "2400" } else { "120" });
            }
            // panics inside the library are observations (caught); panics in the harness itself are
            // machinery failures and must be visible
            std::panic::set_hook(Box::new(|info| {
                if info.payload().downcast_ref::<util::Budget>().is_some() {
                    return;
                }
                if let Some(l) = info.location() {
                    if !l.file().contains("/repo/") && !l.file().contains(".cargo/registry") && !l.file().contains("/rustc/") {
                        println!("MACHINERY: harness panic at {}:{}: {}", l.file(), l.line(), info);
                        std::process::exit(3);
                    }
                }
            }));
            util::silence_stderr();
            let ctx = Ctx { thorough: tier == "thorough", tier, seed, verif_dir, diag };
            let idc = id.clone();
            let of = outfile.clone();
            watchdog::start(30, move |wctx, desc, aux| {
                // a transition did not return: report it as this shard's outcome (the rest of the shard is lost)
                let c: serde_json::Value = serde_json::from_str(&wctx).unwrap_or(serde_json::json!({}));
                let mut replay = c.get("base").cloned().unwrap_or(serde_json::json!({"kind": "unknown", "context": wctx}));
                let mut ops: Vec<serde_json::Value> = serde_json::from_str(&desc).unwrap_or_default();
                let mut opname = "unknown".to_string();
                if let Some(op) = c.get("alphabet").and_then(|a| a.get(aux as usize)) {
                    opname = op.to_string();
                    ops.push(op.clone());
                }
                if replay.is_object() {
                    replay["ops"] = serde_json::json!(ops);
                    replay["hang"] = serde_json::json!(true);
                }
                let config = format!("{}/{}/{}", replay["e"].as_str().unwrap_or(""), replay["rkind"].as_str().unwrap_or(""), replay["backend"].as_str().unwrap_or(""));
                let v = report::Violation {
                    property: idc.clone(),
                    system: "watchdog".into(),
                    config,
                    op_class: "hang".into(),
                    symptom: "hang".into(),
                    detail: format!("operation {} issued after {} earlier operations did not return within 30 s (non-termination)", opname, ops.len().saturating_sub(1)),
                    replay,
                };
                let mut o = report::Outcome::new();
                o.cov.caps_hit.push("a shard was abandoned after a non-terminating operation".into());
                o.violations.push(v);
                let doc = serde_json::json!({"meta": null, "outcome": o});
                let _ = std::fs::write(&of, serde_json::to_string(&doc).unwrap());
                std::process::exit(0);
            });
            *pool::PROPERTY.lock().unwrap() = id.clone();
            // (a panic located in harness code has already ended the process in the hook above; what can
            // still unwind to here was raised inside the library, outside every per-call guard)
            let (meta, mut out) = match std::panic::catch_unwind(std::panic::AssertUnwindSafe(|| props::run(&id, &ctx))) {
                Ok((m, o)) => (Some(m), o),
                Err(p) => {
                    let mut o = report::Outcome::new();
                    o.violations.push(report::Violation {
                        property: id.clone(),
                        system: "uncaught-library-panic".into(),
                        config: String::new(),
                        op_class: "library call".into(),
                        symptom: "panic".into(),
                        detail: format!("a library call made while setting up or sampling (no failure expected there) panicked: {}", util::panic_msg(&p)),
                        replay: serde_json::json!({"kind": "none", "note": "re-run the check"}),
                    });
                    (None, o)
                }
            };
            if let Ok(v) = std::env::var("DSIV_VARIANT") {
                if !v.is_empty() {
                    let cfgs: Vec<String> = out.cov.configs.iter().map(|c| format!("{}+{}", c, v)).collect();
                    out.cov.configs = cfgs.into_iter().collect();
                    for x in out.violations.iter_mut() {
                        x.config = format!("{}+{}", x.config, v);
                        x.replay["variant"] = serde_json::json!(v);
                    }
                    out.cov.notes = out.cov.notes.iter().map(|n| format!("[{}] {}", v, n)).collect();
                }
            }
            let doc = serde_json::json!({"meta": meta, "outcome": out});
            std::fs::write(&outfile, serde_json::to_string(&doc).unwrap()).expect("write shard output");
            std::process::exit(0);
        }
        _ => {
            eprintln!("unknown command");
            std::process::exit(2);
        }
    }
}
