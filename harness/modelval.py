#!/usr/bin/env python3
"""Emit codewords from the repository's own independent sources so the harness can
validate its reference model (DESIGN.md section 3.3).  Usage: modelval.py /repo
Lines (bit strings are in STREAM ORDER, first bit first):
  py  <code> <param> <BE|LE> <value> <bits>      python/gen_code_tables.py definitions
  doc <code> 0 BE <value> <bits>                  documented table in src/codes/mod.rs
  reg <method> <args> <BE|LE> <64 bits>           tests/test_codes_regression.rs vectors
"""
import importlib.util, re, sys, os, io, contextlib

repo = sys.argv[1]
N = int(sys.argv[2]) if len(sys.argv) > 2 else 4096
spec = importlib.util.spec_from_file_location("gct", os.path.join(repo, "python", "gen_code_tables.py"))
gct = importlib.util.module_from_spec(spec)
with contextlib.redirect_stdout(io.StringIO()):
    spec.loader.exec_module(gct)

out = []
def stream(bits, be):
    return bits if be else bits[::-1]

for be in (True, False):
    e = "BE" if be else "LE"
    for v in range(N):
        out.append("py unary 0 %s %d %s" % (e, v, stream(gct.write_unary(v, "", be), be)) if v < 300 else "")
        out.append("py gamma 0 %s %d %s" % (e, v, stream(gct.write_gamma(v, "", be), be)))
        out.append("py delta 0 %s %d %s" % (e, v, stream(gct.write_delta(v, "", be), be)))
        for k in range(1, 8):
            if k == 1 and v == 0:
                continue  # the Python helper write_fixed(_, 0) emits a spurious "0" for zero-width fields
            out.append("py zeta %d %s %d %s" % (k, e, v, stream(gct.write_zeta(v, k, "", be), be)))
    for u in range(2, 70):  # u = 1 is a zero-width field (see above)
        for v in range(u):
            out.append("py minbin %d %s %d %s" % (u, e, v, stream(gct.write_minimal_binary(v, u, "", be), be)))

# documented table
src = open(os.path.join(repo, "src", "codes", "mod.rs")).read()
for m in re.finditer(r"^//! \| (\d+)\s*\|\s*([01]+) \|\s*([01]+) \|\s*([01]+) \|", src, re.M):
    v = int(m.group(1))
    out.append("doc unary 0 BE %d %s" % (v, m.group(2)))
    out.append("doc gamma 0 BE %d %s" % (v, m.group(3)))
    out.append("doc delta 0 BE %d %s" % (v, m.group(4)))

# regression vectors: test_code!(|b| b.write_x(args), EXPECTED_BE, |b| b.write_x(args), EXPECTED_LE,)
reg = open(os.path.join(repo, "tests", "test_codes_regression.rs")).read()
pat = re.compile(r"test_code!\(\s*\|b: &mut Backend<BE>\| b\.(\w+)\(([^)]*)\),\s*(0b[01_]+),\s*\|b: &mut Backend<LE>\| b\.(\w+)\(([^)]*)\),\s*(0b[01_]+),\s*\);", re.S)
for m in pat.finditer(reg):
    f1, a1, be_bits, f2, a2, le_bits = m.groups()
    be_v = int(be_bits.replace("_", ""), 2)
    le_v = int(le_bits.replace("_", ""), 2)
    out.append("reg %s %s BE %s" % (f1, a1.replace(" ", ""), format(be_v, "064b")))
    out.append("reg %s %s LE %s" % (f2, a2.replace(" ", ""), format(le_v, "064b")[::-1]))

print("\n".join(x for x in out if x))
