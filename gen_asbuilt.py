#!/usr/bin/env python3
"""Rewrites the 'As built' table of DESIGN.md from the committed evidence files (measured numbers)
and the bounds texts below."""
import json, re
B = {
 "C01": ("depth 3 = full, full, boundary alphabet (dirty arguments unless the build has `checks`); 8 backends x 5 finishers (incl. drop while unwinding, a pre-filled vector) at every interior node, a share of them at leaves; deep-narrow depth 7; u8 fixpoint; long streams; unary codes around 2^32",
         "depth 4, all 40 combinations everywhere, u8 fixpoint with the full alphabet, deep-narrow depth 9, also in the dbg build (≈ 11 min)"),
 "C02": ("2 E x 5 reader kinds x 7 backends (incl. the piecewise/interrupting byte source) x 3 images of 384 bits, full alphabet + io::Read, fixpoint; ALL 65 536 two-byte streams on the u8 reader; 140 k reads past the end; read_unary/skip_bits of 2^32 bits",
         "11 images of 640 bits; all two-byte streams with the full alphabet on u8 and u16 readers; 3 M reads past the end; also in the dbg build (≈ 8 min)"),
 "C03": ("(a) offsets 0..=129 x u64 writer x 2 readers; (b) 5 writer words x 5 offsets x 10 readers x 730 codes; (c) core codes x values < 72 x all 256 following bytes; (d) tail-exact streams; read-back even when the image differs; both builds",
         "dense 2^16 values for core codes, every offset 0..=2W+1 (≈ 5 min)"),
 "C04": ("30 stream configurations x 5 write-variant passes; every code x boundary value through the Count and Dbg writers; model validated on 79 k repository vectors; both builds",
         "values < 2^16, every offset 0..=W+1 (≈ 6 min)"),
 "C05": ("all 6 656 x 2 indices x 4 continuations x offsets 0..=2W+1 x 2 ways x 2 backends x every variant; encode/len tables; the table modules' helper functions on every index; 20 reader fixpoints; both builds",
         "8 continuations, 3 images of 640 bits (≈ 25 s)"),
 "C06": ("length functions on values < 2^20 (core codes) + boundaries; 20 stream configurations; dispatch streams + the dispatch engine of C10; len_table helpers; byte-level VByte writers into chunking sinks; tail-exact streams; both builds",
         "values < 2^22 (≈ 50 s)"),
 "C07": ("70 configurations x 2 images of 256 bits + ragged byte streams; every seek target from every state, seeks after errors; positions and seeks beyond 2^32 on a synthetic source",
         "6 images of 512 bits, also in the dbg build (≈ 13 min)"),
 "C08": ("source view (fixpoint) + destination view (depth 3, and depth 4 with a boundary-crossing write before the copy) on three builds (optimised, no_copy_impls, dbg); long-copy grid and copies of 2^32 bits on two; failed copies must keep the destination's earlier bits",
         "every copy length 0..=2W+2, 6 prefills, 2 images, 15 long-copy block counts, 5 huge lengths (≈ 32 min)"),
 "C09": ("every truncation point of a 256-bit valid stream x 70 configurations (+ ragged tails), 21 seek targets, seeks after errors, tail-exact streams; both builds",
         "3 images of 384 bits (≈ 2.5 min)"),
 "C10": ("178 (code, E) tasks x values dense below 4 096 + boundaries, identifiers also through from_code_const; statistics wrapper in 8 instantiations; both builds",
         "dense below 65 536 (≈ 25 s)"),
 "C11": ("<= 3 deviations, 1-3 words, 5 word sizes; adapter BFS depth 6 over aligned, ragged, mid-word and failing-mid-word streams; bit streams over 3 sinks and over a sink failing at every call, every finisher",
         "<= 5 deviations, BFS depth 7 (≈ 25 s)"),
 "C12": ("every fill level x every slice length 0..=40 (2 patterns) + 8 longer, io flush, depth 3-4 with real-backend replays; reader: every length at every state; long byte writes; every slice address mod 8; write_vectored for 1 110 partitions",
         "deeper continuation alphabets, 4 images, byte writes up to 2^20+1, also in the dbg build (≈ 6 min)"),
 "C13": ("all 40 initial arrays x 4 stream types x 5 words x owned/borrowed, far seek targets, clone/flush/is_empty; stateright on owned arrays of length <= 2; 300 k reads past the end; arrays of 2^32+8 words",
         "arrays up to length 4, stateright on all of them, 5 M reads, also in the dbg build (≈ 1.5 min)"),
 "C14": ("Count wrapper on all reader kinds (also created mid-stream, seeks to depth 3), Dbg on buf16/buf32/unbuf; writer depth 3; every code x boundary value through both wrappers; unwrap-and-continue at every prefix length; both builds",
         "Dbg everywhere, 4 images, full depth-3 alphabet (≈ 35 s)"),
 "C15": ("single-value sweep (7 k values), 1 001 multisets, 55-field best_code sweep, 8 instantiations, failing writes, multiplicities up to 2^40, 5 loom models, free-running 4-thread pass (a sample)",
         "all splits, 9 loom models (≈ 20 s)"),
 "C16": ("names: 1 200 round trips (also with width flags), ~700 malformed texts; identifiers 0..=70 000 and above every power of two; both builds", "same"),
 "C17": ("8/16/32 bits complete; windows of 2^16, two-bit sums and limb patterns for 64/128 bits and usize; by value and by reference; both builds", "windows of 2^20"),
 "C18": ("values < 2^21 + boundaries + per-group patterns (chunking, interrupting and truncated sources/sinks), 10 stream configurations, tail-exact codes, all 270 M strings of length <= 4; both builds",
         "bit-stream grid 2^14, all 2^35 strings of length 5 (≈ 5 min)"),
 "C19": ("3 builds (default, checks+no_copy_impls, checks+debug assertions); dirty-bit sweep from every fill level, all word sizes", "all 8 builds (≈ 3 min incl. builds)"),
 "C20": ("63 length functions x 2^20 dense prefix (exact Kraft); 658 k synthetic step functions (<= 5 steps) x 3 value maps; sampler set-up; both builds", "2^21 prefix, <= 6 steps (3.9 M functions)"),
}
def fmt(n):
    n=int(n)
    if n>=10**9: return f"{n/1e9:.1f} G"
    if n>=10**6: return f"{n/1e6:.1f} M"
    if n>=10**4: return f"{n/1e3:.0f} k"
    return str(n)
rows=["| Prop | quick tier: bounds — measured on the last committed run | thorough tier |","|---|---|---|"]
for pid in sorted(B):
    e=json.load(open(f"/verif/evidence/{pid}.json")); c=e["coverage"]
    if "states" in c:
        m=f"{fmt(c['states'])} states, {fmt(c['transitions'])} transitions"
        if c.get("traces_validated_against_impl",0)>c["transitions"]: m+=f", {fmt(c['traces_validated_against_impl'])} replays/validations"
    else:
        m=f"{fmt(c['evaluations'])} evaluations"
    m+=f", {c['configurations']} configurations, ≈ {e['wall_s']:.0f} s"
    rows.append(f"| {pid} | {B[pid][0]} — {m} | {B[pid][1]} |")
p="/verif/DESIGN.md"; s=open(p).read()
i=s.index("| Prop | quick tier: bounds"); j=s.index("\n\n", i)
s=s[:i]+"\n".join(rows)+s[j:]
open(p,"w").write(s)
print("table rewritten")
