#!/bin/bash
# validate_seeded.sh <ID> [worktree-prefix] [number-offset]   e.g. C09 /tmp/w2- 2 : confirms, in the scratch worktree /tmp/wt-<ID>, that each seeded change
# (a) applies to HEAD, (b) keeps the repository's own test suite green, (c) makes its demonstration fail,
# (d) the demonstration passes without it. Accepted changes are stored as /verif/seeded/<ID>-<n>/.
id=$1; pre=${2:-/tmp/wt-}; off=${3:-0}; wt=$pre$id; sd=$wt/SEEDED
export CARGO_NET_OFFLINE=true
cd "$wt" || exit 1
git checkout -q -- . ; rm -f tests/seeded_demo*.rs
for n in 1 2; do
  d=$sd/change$n.diff; demo=$sd/demo$n.rs
  [ -f "$d" ] && [ -f "$demo" ] || { echo "$id-$n: missing files"; continue; }
  log=/tmp/validate-$id-$n.log; : > $log
  cp "$demo" tests/seeded_demo$n.rs
  # (d) demo passes on the unmodified tree
  if cargo test --offline --test seeded_demo$n >>$log 2>&1; then clean=pass; else clean=FAIL; fi
  # (a) applies
  if ! git apply "$d" 2>>$log; then echo "$id-$n: patch does not apply"; rm -f tests/seeded_demo$n.rs; continue; fi
  # (c) demo fails with the change
  if cargo test --offline --test seeded_demo$n >>$log 2>&1; then mutated=PASS; else mutated=fail; fi
  rm -f tests/seeded_demo$n.rs
  # (b) the suite, unedited, still passes
  if cargo test --workspace --no-fail-fast --offline > /tmp/validate-$id-$n.suite.log 2>&1; then suite=pass; else suite=FAIL; fi
  npass=$(grep -h "^test result" /tmp/validate-$id-$n.suite.log | awk '{s+=$4} END {print s}')
  git checkout -q -- .
  verdict=REJECTED
  if [ $clean = pass ] && [ $mutated = fail ] && [ $suite = pass ]; then
    verdict=ACCEPTED
    out=/verif/seeded/$id-$((n+off)); mkdir -p $out
    { echo "# property: $id"; cat "$d"; } > $out/patch.diff
    cp "$demo" $out/demo.rs
    python3 - "$id" "$((n+off))" "$sd/notes.md" "$out/meta.json" "$npass" <<'PY'
import sys, json, re
pid, n, notes, outp, npass = sys.argv[1:6]
txt = open(notes).read() if __import__('os').path.exists(notes) else ''
json.dump({
  "property": pid,
  "source": "independent sub-agent given only the property text and a scratch worktree",
  "needs_to_manifest": "see notes (excerpt below)",
  "notes_excerpt": txt[:6000],
  "validated": {"demo_on_clean_tree": "pass", "demo_with_change": "fail", "repo_suite_with_change": f"pass ({npass} tests incl. doc tests)",
                "commands": ["cargo test --offline --test seeded_demo (clean / changed)", "cargo test --workspace --no-fail-fast --offline (changed)"]},
}, open(outp, "w"), indent=1)
PY
  fi
  echo "$id-$((n+off)): $verdict demo(clean)=$clean demo(changed)=$mutated suite=$suite($npass)"
done
