#!/bin/bash
# Parallel detection demonstration that never touches /repo: every patch gets a scratch root
# /tmp/st-<k>/{repo (git worktree of /repo HEAD + the patch), verif (copy of /verif without build output)},
# the copy's harness is pointed at the scratch repo, the targeted property's quick check is run there,
# exit 1 is expected, and the scratch root is removed.
# usage: selftest_par.sh [-j N] [--tests] [pattern...]   results appended to /verif/selftest.log
cd /verif || exit 3
J=4; TESTS=0; pats=()
while [ $# -gt 0 ]; do case "$1" in -j) J=$2; shift 2;; --tests) TESTS=1; shift;; *) pats+=("$1"); shift;; esac; done
files=()
for f in mutants/*.diff seeded/*/patch.diff; do
  [ -f "$f" ] || continue
  if [ ${#pats[@]} -eq 0 ]; then files+=("$f"); else for p in "${pats[@]}"; do [[ "$f" == *$p* ]] && { files+=("$f"); break; }; done; fi
done
one() {
  f=$1; k=$2
  root=/tmp/st-$k; rm -rf $root; mkdir -p $root
  prop=$(grep -m1 -o 'property: C[0-9][0-9]' "/verif/$f" | cut -d' ' -f2)
  git -C /repo worktree add -q --detach $root/repo HEAD || { echo "SKIP $f: cannot create worktree"; return; }
  cp /repo/Cargo.lock $root/repo/ 2>/dev/null
  if ! git -C $root/repo apply "/verif/$f" 2>$root/apply.err; then echo "SKIP $prop $f: patch does not apply: $(head -1 $root/apply.err)"; git -C /repo worktree remove --force $root/repo; rm -rf $root; return; fi
  rsync -a --exclude 'target*' --exclude replays --exclude .git --exclude seeded --exclude mutants /verif/ $root/verif/
  sed -i "s|path = \"/repo\"|path = \"$root/repo\"|" $root/verif/harness/Cargo.toml $root/verif/harness-loom/Cargo.toml
  tests="not-run"
  if [ $TESTS = 1 ]; then
    if (cd $root/repo && CARGO_NET_OFFLINE=true cargo test --workspace --no-fail-fast --offline >$root/tests.log 2>&1); then tests="pass"; else tests="FAIL"; fi
  fi
  s=$(date +%s)
  (cd $root/verif && VERIF_ROOT=$root/verif REPO_ROOT=$root/repo VERIF_THREADS=${SELFTEST_THREADS:-6} ./check "$prop" quick > $root/check.log 2>&1); rc=$?
  e=$(date +%s)
  first=$(grep -A1 -m1 '^VIOLATION' $root/check.log | tail -1 | cut -c1-200)
  [ $rc = 2 -o $rc = 3 ] && first="$(grep -m1 MACHINERY $root/check.log | cut -c1-200)"
  if [ $rc = 1 ]; then verdict=DETECTED; else verdict="MISSED(rc=$rc)"; fi
  echo "$verdict $prop $f repo-tests=$tests $((e-s))s :: $first"
  git -C /repo worktree remove --force $root/repo; rm -rf $root
}
export -f one; export TESTS
k=0
for f in "${files[@]}"; do
  k=$((k+1))
  while [ $(jobs -r | wc -l) -ge $J ]; do sleep 2; done
  one "$f" $k >> /verif/selftest.log &
done
wait
grep -c '^DETECTED' /verif/selftest.log; grep -c '^MISSED' /verif/selftest.log
