#!/usr/bin/env python3
"""Regenerates /verif/MANIFEST.json from the table below (kept in one place so the file is always valid)."""
import json, subprocess

CHECKS = {
 "C01": ("model_checking", "5 (C01)", "explicit-state BFS over the real BufBitWriter + per-node replay on all real backends/finishers, vs bit-vector model",
         "Every (writer state, operation) pair within depth 3 (full alphabet at depths 1-2, boundary alphabet at depth 3; depth 4 in thorough; whole reachable space for 8-bit words) for both endiannesses and all five word sizes is executed on the real code and compared with an independent bit-vector model, and every explored history is replayed on every backend kind and finisher. Exhaustive inside the stated depth/alphabet; not a proof for longer histories.",
         "Trusted: the reference model (canonical layout, ~100 lines) and parametricity of BufBitWriter in its WordWrite backend. Values are from a 4-pattern x {clean,dirty} alphabet, not all 2^64."),
 "C02": ("model_checking", "5 (C02)", "explicit-state BFS to the fixpoint of the real reader objects (exact Debug-string state identity) vs bit-vector model",
         "The whole reachable state space of every reader kind x backend x endianness over each image is enumerated (the space closes because keys are exact concrete states), and every enabled operation of the full alphabet is executed from every state on a clone and compared with the model. Exhaustive for the given images; data-dependence outside the images is the residual risk.",
         "Trusted: reference model; images are a finite set (structured + seeded)."),
 "C03": ("exploration", "5 (C03)", "bounded-exhaustive enumeration of (code, parameter, value, offset, endianness, writer word, reader) histories on the real writer and readers",
         "Bounded-exhaustive grid over the parameter/value/offset/configuration space with every read variant tried on clones; a grid, not all 2^64 values.",
         "Trusted: the value grid reaches the defects' locations (all small values, every 2^i+-2, code-specific step points, maxima)."),
 "C04": ("exploration", "5 (C04)", "bounded-exhaustive comparison of the real writer's bytes with an independent reference encoder validated against three repository sources",
         "Every (code, parameter, value) of the grid is written with every write variant and every word size and compared bit for bit with the reference encoder, which is itself validated against python/gen_code_tables.py, the documented table and the regression vectors on every run.",
         "Trusted: the reference encoder (textbook definitions, validated)."),
 "C05": ("model_checking", "5 (C05)", "complete sweep of all 6656x2 decode-table indices at every offset/fill + BFS to fixpoint of readers with table operations, table vs table-free on clones",
         "Complete over table indices and table entries (finite spaces enumerated entirely), over offsets 0..=W+1 and over the reachable reader states on code images; premise (which reader may use which table) taken from the library's own diagnostic.",
         "Trusted: reference decoder; continuation bits after the index are from 2-4 patterns."),
 "C06": ("exploration", "5 (C06)", "bounded-exhaustive enumeration of every length function vs reference length, plus write return / stream growth / read advance on real streams",
         "All length functions and dispatch length objects are evaluated on all values below 2^16 (2^20 thorough), every power of two +-2, code-specific steps and maxima, for all parameters; a grid over a 64-bit domain.",
         "Trusted: reference lengths."),
 "C07": ("model_checking", "5 (C07)", "explicit-state BFS to the fixpoint of the real reader with set_bit_pos(p) for every p from every state; bit_pos checked after every transition",
         "Every seek target from every reachable state over six backend kinds; post-seek objects are ordinary states expanded with the full alphabet, so 'seek == fresh reader at p' is decided for every continuation.",
         "Trusted: reference model; finite image set."),
 "C08": ("model_checking", "5 (C08)", "two BFS views of the reader x writer product cut at the copy step (source view to fixpoint, destination view depth 3), on both copy-path builds",
         "All continuations of all post-copy source states are explored (fixpoint), with copies of many lengths into writers of all word sizes; destination view bounded to depth 3. Run on the optimised and on the generic copy paths; both must match the model.",
         "Trusted: reference model; quick tier uses a boundary set of copy lengths, thorough 0..=3W+2."),
 "C09": ("fault_enumeration", "5 (C09)", "enumeration of every truncation point (after every backend word) x BFS to fixpoint of the reader on strict and zero-extended backends",
         "Every truncation point of valid streams, every reachable reader state and every operation classified by the model as inside/outside the data; complete for the images used.",
         "Trusted: reference decoder decides whether an operation needs a bit beyond the end."),
 "C12": ("model_checking", "5 (C12)", "explicit-state BFS over writer fill states x io::Write of every length 0..=40; reader BFS to fixpoint with io::Read of every length 0..=40",
         "Every starting bit offset x every slice length on every word size (writer) and every reachable reader state x every length (reader), against the byte-in-stream-order model.",
         "Trusted: reference model; two byte patterns per length."),
}

NOT_YET = {
}

def main():
    props = [json.loads(l)["id"] for l in open("/verif/properties.jsonl")]
    checks = []
    for pid in props:
        if pid not in CHECKS:
            continue
        cat, ref, tech, text, note = CHECKS[pid]
        checks.append({
            "property_id": pid,
            "quick_cmd": f"./check {pid} quick",
            "thorough_cmd": f"./check {pid} thorough",
            "evidence_file": f"/verif/evidence/{pid}.json",
            "replay_cmd_template": "./check replay {path}",
            "engine": "dsiv",
            "level_claimed": {"category": cat, "text": text, "design_ref": f"DESIGN.md section {ref}"},
            "level_note": note,
            "technique": tech,
        })
    na = [{"property_id": p, "reason": NOT_YET.get(p, "check under construction in this round; will be claimed once it runs clean on the unchanged tree")} for p in props if p not in CHECKS]
    hooks_commits = subprocess.run(["git", "-C", "/repo", "log", "--format=%h %s", "--grep=^verif-hook:"], capture_output=True, text=True).stdout.strip().splitlines()
    m = {
        "version": 1,
        "setup_cmd": "./check setup",
        "hooks": {
            "guard": "dsi_bitstream_verif",
            "enable": "RUSTFLAGS=\"--cfg dsi_bitstream_verif\" (only the loom harness for C15 builds /repo with the guard on; every other check builds /repo unmodified)",
            "baseline_off_cmd": "cd /repo && cargo nextest run --workspace --no-fail-fast --offline || cargo test --workspace --no-fail-fast --offline",
            "source_commits": [c.split()[0] for c in hooks_commits],
            "add_only": True,
        },
        "engines": [
            {"name": "dsiv", "path": "/verif/harness", "serves_properties": [c["property_id"] for c in checks],
             "kind_free_text": "Rust harness linking /repo as a path dependency: explicit-state BFS over the real reader/writer objects, deviation-bounded environment exploration, bounded-exhaustive grids; shard processes with watchdog"},
        ],
        "checks": checks,
        "not_applicable": na,
        "notes": "All checks rebuild the harness (and with it /repo's working tree) before running. Known findings and fixed defects: /verif/KNOWN_FINDINGS.json. Seeded property-breaking changes: /verif/seeded/.",
    }
    json.dump(m, open("/verif/MANIFEST.json", "w"), indent=1)
    print("checks:", len(checks), "not claimed:", len(na))

main()
