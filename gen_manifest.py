#!/usr/bin/env python3
"""Regenerates /verif/MANIFEST.json from the table below (kept in one place so the file is always valid)."""
import json, subprocess

CHECKS = {
 "C01": ("model_checking", "5 (C01)", "explicit-state BFS over the real BufBitWriter + per-node replay on all real backends/finishers, vs bit-vector model",
         "Every (writer state, operation) pair within depth 3 (full alphabet at depths 1-2, boundary alphabet at depth 3; depth 4 in thorough; whole reachable space for 8-bit words) for both endiannesses and all five word sizes is executed on the real code and compared with an independent bit-vector model, and every explored history is replayed on seven backend kinds (vector owned/borrowed, fixed slice, byte adapter over Vec / a 3-bytes-per-call sink / a commit-on-flush sink, recorder) x four finishers; plus long streams (unary codes of up to 70 001 zeros, 1 200 consecutive writes) and unary codes around and beyond 2^32 bits into a sparse sink. Exhaustive inside the stated depth/alphabet; not a proof for longer histories.",
         "Trusted: the reference model (canonical layout, ~100 lines) and parametricity of BufBitWriter in its WordWrite backend. Values are from a 4-pattern x {clean,dirty} alphabet, not all 2^64."),
 "C02": ("model_checking", "5 (C02)", "explicit-state BFS to the fixpoint of the real reader objects (exact Debug-string state identity) vs bit-vector model",
         "The whole reachable state space of every reader kind x backend x endianness over each image is enumerated (the space closes because keys are exact concrete states), and every enabled operation of the full alphabet is executed from every state on a clone and compared with the model; backends include a byte source that delivers words in pieces and answers Interrupted; ALL 65 536 two-byte streams are explored to the fixpoint on the 8-bit-word reader (data-complete small scope); read_unary/skip_bits of 2^32+ bits over a synthetic source. Exhaustive for the given images; data-dependence outside the images and beyond two-byte streams is the residual risk.",
         "Trusted: reference model; images are a finite set (structured + seeded)."),
 "C03": ("exploration", "5 (C03)", "bounded-exhaustive enumeration of (code, parameter, value, offset, endianness, writer word, reader) histories on the real writer and readers",
         "Bounded-exhaustive grid over the parameter/value/offset/configuration space with every read variant tried on clones (the read-back is independent of whether the written bytes match the reference); a grid, not all 2^64 values.",
         "Trusted: the value grid reaches the defects' locations (all small values, every 2^i+-2, code-specific step points, maxima)."),
 "C04": ("exploration", "5 (C04)", "bounded-exhaustive comparison of the real writer's bytes with an independent reference encoder validated against three repository sources",
         "Every (code, parameter, value) of the grid is written with every write variant and every word size and compared bit for bit with the reference encoder, which is itself validated against python/gen_code_tables.py, the documented table and the regression vectors on every run; the same grid is written through the library's other BitWrite implementors (counting and tracing wrappers), and the whole check is repeated in a build with debug assertions and overflow checks.",
         "Trusted: the reference encoder (textbook definitions, validated)."),
 "C05": ("model_checking", "5 (C05)", "complete sweep of all 6656x2 decode-table indices at every offset/fill + BFS to fixpoint of readers with table operations, table vs table-free on clones",
         "Complete over table indices and table entries (finite spaces enumerated entirely), over offsets 0..=2W+1 and over the reachable reader states on code images; premise (which reader may use which table) taken from the library's own diagnostic.",
         "Trusted: reference decoder; continuation bits after the index are from 4 (thorough 8) patterns."),
 "C06": ("exploration", "5 (C06)", "bounded-exhaustive enumeration of every length function vs reference length, plus write return / stream growth / read advance on real streams",
         "All length functions and dispatch length objects are evaluated on all values below 2^20 (2^22 thorough), every power of two +-2, code-specific steps (incl. multiples of Golomb moduli around every power of two) and maxima, for all parameters; returned lengths and consumed bits also through every dispatch mechanism (real factory readers included); a grid over a 64-bit domain.",
         "Trusted: reference lengths."),
 "C07": ("model_checking", "5 (C07)", "explicit-state BFS to the fixpoint of the real reader with set_bit_pos(p) for every p from every state; bit_pos checked after every transition",
         "Every seek target from every reachable state over six backend kinds (plus byte streams with a partial trailing word); post-seek objects are ordinary states expanded with the full alphabet, so 'seek == fresh reader at p' is decided for every continuation; states reached through a reported error are continued by seeks; byte sources delivering words in pieces; positions and seeks beyond 2^32 on a synthetic source.",
         "Trusted: reference model; finite image set."),
 "C08": ("model_checking", "5 (C08)", "two BFS views of the reader x writer product cut at the copy step (source view to fixpoint, destination view depth 3), on both copy-path builds",
         "All continuations of all post-copy source states are explored (fixpoint), with copies of many lengths into writers of all word sizes; destination view bounded to depth 3; a grid of long copies (127..1025 words) and copies of 2^32+ bits between synthetic source and comparing sink; a copy that fails must leave what the destination already held. Run on the optimised and on the generic copy paths; both must match the model.",
         "Trusted: reference model; quick tier uses a boundary set of copy lengths, thorough 0..=3W+2."),
 "C09": ("fault_enumeration", "5 (C09)", "enumeration of every truncation point (after every backend word) x BFS to fixpoint of the reader on strict and zero-extended backends",
         "Every truncation point of valid streams (also followed by a partial trailing word on byte streams), every reachable reader state and every operation classified by the model as inside/outside the data, seeks after reported errors, and codewords ending exactly with the last bit of a strict stream; complete for the images used.",
         "Trusted: reference decoder decides whether an operation needs a bit beyond the end."),
 "C12": ("model_checking", "5 (C12)", "explicit-state BFS over writer fill states x io::Write of every length 0..=40; reader BFS to fixpoint with io::Read of every length 0..=40",
         "Every starting bit offset x every slice length on every word size (writer) and every reachable reader state x every length (reader), against the byte-in-stream-order model; every slice length x every start address modulo 8 of the caller's slice.",
         "Trusted: reference model; two byte patterns per length."),
 "C10": ("exploration", "5 (C10)", "complete enumeration of identifiers x dispatcher kinds x {write,read,len} on a value grid, dispatcher vs direct trait method",
         "Complete over the identifier space (all 51 constants and aliases, every enumeration variant with parameters 0..=12 and large ones) and over the dispatcher kinds; values from the boundary grid. Bytes, lengths, values and end positions through each dispatcher are compared with the direct method; the statistics wrapper in eight instantiations of its const parameters; repeated in a build with overflow checks.",
         "Trusted: the direct trait methods as specification (their correctness is C03/C04/C06); ConstCode identifiers are looked up by the NAME of the constant."),
 "C11": ("model_checking", "5 (C11)", "deviation-bounded exhaustive exploration of the wrapped Read/Write's answers (short counts, Interrupted, errors) + BFS of the adapter over a seekable Cursor",
         "Every schedule of environment answers with at most 3 (thorough 5) deviations from the default, at every call index, for all word sizes and 1-3 words; explicit-state BFS of word positions over a Cursor (also pre-positioned); bit streams through the adapter over plain / chunking / commit-on-flush sinks and over a sink whose k-th call fails (every k, every finisher including drop); ragged and mid-word streams continued through seeks. Exhaustive within the deviation bound.",
         "Trusted: the environment alphabet matches what std::io::Read/Write permit."),
 "C13": ("model_checking", "5 (C13)", "explicit-state BFS to the fixpoint over the real memory word streams vs Vec+cursor model, cross-checked by stateright's BFS checker (state counts must agree)",
         "All reachable states from every initial array of length <= 3 over a 3-letter alphabet for four stream types x five word types x owned/borrowed storage, operations read/write/position/seek/len/clone/flush; two independent engines.",
         "Trusted: Vec+cursor model; growth capped at 5 words and zero-extended reads at len+3 to close the space."),
 "C14": ("model_checking", "5 (C14)", "reader BFS (fixpoint) and writer BFS (depth 3) through the Count/Dbg wrappers with the full trait surface; counters checked after every transition",
         "Every reachable wrapped-reader state x every trait method reachable through the wrapper (including table-parameterised codes and omega, copies), and writer histories to depth 3 including flushes; counters and values compared with the model after every step; every code x parameter x boundary value through both wrappers (length, counter, delivered bytes; reads with counter and position).",
         "Trusted: reference model; padding written by flush is not counted as written bits."),
 "C15": ("model_checking", "5 (C15)", "loom: all interleavings (preemption bound 3, unbounded for the smallest models) of 2-3 threads through one shared wrapper; plus complete enumeration of multisets <= 4 over 10 values x splits x merge forms",
         "Concurrent half explored exhaustively by loom within the stated preemption bounds with the library's own Mutex replaced by loom's (cfg hook); sequential half complete over 1001 multisets, all 3-way splits and five merge forms; eight instantiations of the generic statistics types; failing writes through the wrapper.",
         "Trusted: loom's scheduler/memory model; reference lengths as cost (cross-checked against actual written sizes for short codewords)."),
 "C16": ("exploration", "5 (C16)", "complete enumeration of variants x parameters, identifiers 0..=80, a malformed-text grammar, and all pairs of codes that compare equal",
         "Finite spaces enumerated completely (names, identifiers, equivalence classes); malformed texts from a grammar (wrong case, prefixes, suffixes, bracket confusion, long/non-ASCII); formatting with width flags; repeated in a build with overflow checks.",
         "Trusted: the oracle does not constrain trailing text after a valid parameter."),
 "C17": ("exploration", "5 (C17)", "complete enumeration of the 8/16/32-bit types, dense windows + two-bit sums + limb-boundary patterns for wider types, vs closed formulas",
         "Exhaustive for 8, 16 and 32 bits; for 64/128-bit and pointer-size types windows of 2^16 (2^20) around 0, MIN, MAX and every power of two, every value with two set bits +-2, and limb-boundary patterns; run in the optimised build and in a build with overflow checks (a panic is a finding).",
         "Trusted: the closed formulas of the statement."),
 "C18": ("exploration", "5 (C18)", "complete enumeration of all terminated byte strings of length <= 4 (thorough 5), all values below 2^21 and length-step boundaries; io functions vs bit-stream traits vs reference",
         "Completeness decided on all terminated strings of length <= 4 (270 M; thorough: length 5, 2^35); agreement of io and bit-stream variants on the value grid for every stream endianness and word size, also over chunking and interrupting sinks/sources and at the very end of strict streams.",
         "Trusted: the offset definition of the complete code in the module documentation."),
 "C19": ("model_checking", "5 (C19)", "the same reduced state-space explorations run in several builds of the library (features x profiles); all must match the model, digests must agree; complete dirty-bit sweep of write_bits",
         "Quick: 3 builds (default, checks+no_copy_impls, checks+debug assertions); thorough: all 8 of the matrix. Each runs writer BFS, reader BFS to fixpoint and code streams on clean arguments; the argument check is swept over every n and every single dirty bit from every fill level of the buffer, all word sizes.",
         "Trusted: same toolchain/host for all variants."),
 "C20": ("exploration", "5 (C20)", "bounded-exhaustive: monotonicity and exact Kraft sums of all length functions; change-point iterator on all library length functions and ALL <=5-step functions on a 39-point grid with a call budget",
         "Dense prefixes (2^20 / 2^21) and windows around powers of two for monotonicity and Kraft; the iterator is run on all step functions with at most 5 (thorough 6) steps on a 39-point grid (658 k / 3.9 M functions, each with three value maps: small, top = usize::MAX, levels 2^32 apart) and on every library length function, with termination decided by a call budget.",
         "Trusted: the call budget (200 000 evaluations) separates termination from non-termination."),
}

NOT_YET = {
}

def main():
    props = [json.loads(l)["id"] for l in open("/verif/properties.jsonl")]
    checks = []
    for pid in props:
        if pid not in CHECKS:
            continue
        cat, ref, tech, text, note = CHECKS[pid]
        checks.append({
            "property_id": pid,
            "quick_cmd": f"./check {pid} quick",
            "thorough_cmd": f"./check {pid} thorough",
            "evidence_file": f"/verif/evidence/{pid}.json",
            "replay_cmd_template": "./check replay {path}",
            "engine": "dsiv",
            "level_claimed": {"category": cat, "text": text, "design_ref": f"DESIGN.md section {ref}"},
            "level_note": note,
            "technique": tech,
        })
    na = [{"property_id": p, "reason": NOT_YET.get(p, "check under construction in this round; will be claimed once it runs clean on the unchanged tree")} for p in props if p not in CHECKS]
    hooks_commits = subprocess.run(["git", "-C", "/repo", "log", "--format=%h %s", "--grep=^verif-hook:"], capture_output=True, text=True).stdout.strip().splitlines()
    m = {
        "version": 1,
        "setup_cmd": "./check setup",
        "hooks": {
            "guard": "dsi_bitstream_verif",
            "enable": "RUSTFLAGS=\"--cfg dsi_bitstream_verif\" (only the loom harness for C15 builds /repo with the guard on; every other check builds /repo unmodified)",
            "baseline_off_cmd": "cd /repo && cargo nextest run --workspace --no-fail-fast --offline || cargo test --workspace --no-fail-fast --offline",
            "source_commits": [c.split()[0] for c in hooks_commits],
            "add_only": True,
        },
        "engines": [
            {"name": "dsiv", "path": "/verif/harness", "serves_properties": [c["property_id"] for c in checks],
             "kind_free_text": "Rust harness linking /repo as a path dependency: explicit-state BFS over the real reader/writer objects, deviation-bounded environment exploration, bounded-exhaustive grids; shard processes with watchdog"},
        ],
        "checks": checks,
        "not_applicable": na,
        "notes": "All checks rebuild the harness (and with it /repo's working tree) before running. Known findings and fixed defects: /verif/KNOWN_FINDINGS.json. Seeded property-breaking changes: /verif/seeded/.",
    }
    json.dump(m, open("/verif/MANIFEST.json", "w"), indent=1)
    print("checks:", len(checks), "not claimed:", len(na))

main()
