#!/bin/bash
# usage: run.sh [quick|thorough]  -> prints one JSON line
/verif/harness-loom/build.sh || exit 2
exec /verif/harness-loom/target/release/dsiv-loom "${1:-quick}"
