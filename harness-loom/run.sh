#!/bin/bash
# usage: run.sh [quick|thorough]  -> prints one JSON line
D=$(dirname "$(readlink -f "$0")")
"$D/build.sh" || exit 2
exec "$D/target/release/dsiv-loom" "${1:-quick}"
