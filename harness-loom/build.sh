#!/bin/bash
# builds the loom harness (with the repository compiled under --cfg dsi_bitstream_verif, see .cargo/config.toml)
D=$(dirname "$(readlink -f "$0")")
cd "$D" || exit 3
export CARGO_NET_OFFLINE=true
if ! cargo build --release --offline > target.build.log 2>&1; then
  echo "MACHINERY: build of the loom harness failed (see $D/target.build.log)"; tail -20 target.build.log; exit 2
fi
