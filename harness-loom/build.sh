#!/bin/bash
# builds the loom harness (with /repo compiled under --cfg dsi_bitstream_verif, see .cargo/config.toml)
cd /verif/harness-loom || exit 3
export CARGO_NET_OFFLINE=true
if ! cargo build --release --offline > target.build.log 2>&1; then
  echo "MACHINERY: build of the loom harness failed (see /verif/harness-loom/target.build.log)"; tail -20 target.build.log; exit 2
fi
