//! C15, concurrent half: every interleaving (loom, preemption-bounded) of threads that
//! update statistics through one shared CodesStatsWrapper; after join the statistics
//! must equal the sequential result for the union of the values.
//! Built with --cfg dsi_bitstream_verif so that the wrapper's Mutex is loom's.

use dsi_bitstream::prelude::*;
use loom::sync::Arc;
use std::sync::atomic::{AtomicUsize, Ordering};

static EXECS: AtomicUsize = AtomicUsize::new(0);

type W = BufBitWriter<BE, MemWordWriterVec<u64, Vec<u64>>>;
type R<'a> = BufBitReader<BE, MemWordReader<u32, &'a [u32]>>;

fn seq_stats(values: &[u64]) -> String {
    let mut s = CodesStats::<10, 20, 10, 10, 10>::default();
    for &v in values {
        s.update(v);
    }
    format!("{:?}", s)
}

/// threads[i] = list of (is_write, value) operations of thread i
fn run_model(name: &str, threads: Vec<Vec<(bool, u64)>>, bound: Option<usize>) -> (usize, Result<(), String>) {
    EXECS.store(0, Ordering::SeqCst);
    let all: Vec<u64> = threads.iter().flatten().map(|x| x.1).collect();
    let want = seq_stats(&all);
    // pre-encoded data for the reading operations
    let mut wr: W = BufBitWriter::new(MemWordWriterVec::new(Vec::new()));
    for &v in &all {
        wr.write_gamma(v).unwrap();
    }
    let data64 = wr.into_inner().unwrap().into_inner();
    let data: Vec<u32> = data64.iter().flat_map(|w| {
        let b = w.to_ne_bytes();
        [u32::from_ne_bytes([b[0], b[1], b[2], b[3]]), u32::from_ne_bytes([b[4], b[5], b[6], b[7]])]
    }).collect();
    let _ = data;
    let mut b = loom::model::Builder::new();
    b.preemption_bound = bound;
    let th = threads.clone();
    let want2 = want.clone();
    let r = std::panic::catch_unwind(std::panic::AssertUnwindSafe(move || {
        b.check(move || {
            EXECS.fetch_add(1, Ordering::SeqCst);
            let w = Arc::new(CodesStatsWrapper::<Codes>::new(Codes::Gamma));
            let mut hs = vec![];
            for ops in th.clone() {
                let w = w.clone();
                hs.push(loom::thread::spawn(move || {
                    // each thread has its own streams; only the statistics are shared
                    let mut wr: W = BufBitWriter::new(MemWordWriterVec::new(Vec::new()));
                    for (is_write, v) in ops {
                        if is_write {
                            let n = DynamicCodeWrite::write(&*w, &mut wr, v).unwrap();
                            assert_eq!(n, len_gamma(v));
                        } else {
                            // read back a private one-codeword stream through the shared wrapper
                            let mut tmp: W = BufBitWriter::new(MemWordWriterVec::new(Vec::new()));
                            tmp.write_gamma(v).unwrap();
                            let d = tmp.into_inner().unwrap().into_inner();
                            let mut rd = BufBitReader::<BE, _>::new(MemWordReader::new(&d[..]));
                            let x = DynamicCodeRead::read(&*w, &mut rd).unwrap();
                            assert_eq!(x, v);
                        }
                    }
                }));
            }
            for h in hs {
                h.join().unwrap();
            }
            let got = format!("{:?}", *w.stats().lock().unwrap());
            assert_eq!(got, want2, "statistics after join differ from the sequential result");
        });
    }));
    let n = EXECS.load(Ordering::SeqCst);
    match r {
        Ok(()) => (n, Ok(())),
        Err(p) => {
            let m = if let Some(s) = p.downcast_ref::<String>() { s.clone() } else if let Some(s) = p.downcast_ref::<&str>() { s.to_string() } else { "panic".into() };
            (n, Err(format!("{}: {}", name, m.chars().take(600).collect::<String>())))
        }
    }
}

/// 2 writer threads and a monitor thread that looks at the statistics while they are being updated
fn run_monitor_model(bound: Option<usize>) -> (usize, Result<(), String>) {
    EXECS.store(0, Ordering::SeqCst);
    let vals = [3u64, 70, 1000, 5];
    let want = seq_stats(&vals);
    let mut b = loom::model::Builder::new();
    b.preemption_bound = bound;
    let r = std::panic::catch_unwind(std::panic::AssertUnwindSafe(move || {
        b.check(move || {
            EXECS.fetch_add(1, Ordering::SeqCst);
            let w = Arc::new(CodesStatsWrapper::<Codes>::new(Codes::Delta));
            let mut hs = vec![];
            for t in 0..2usize {
                let w = w.clone();
                hs.push(loom::thread::spawn(move || {
                    let mut wr: W = BufBitWriter::new(MemWordWriterVec::new(Vec::new()));
                    for v in [vals[2 * t], vals[2 * t + 1]] {
                        DynamicCodeWrite::write(&*w, &mut wr, v).unwrap();
                    }
                }));
            }
            let wm = w.clone();
            let mon = loom::thread::spawn(move || {
                // a progress monitor: the element count it sees is between 0 and 4 and never decreases
                let a = wm.stats().lock().unwrap().total;
                let b = wm.stats().lock().unwrap().total;
                assert!(a <= b && b <= 4, "monitor saw totals {} then {}", a, b);
            });
            for h in hs {
                h.join().unwrap();
            }
            mon.join().unwrap();
            let got = format!("{:?}", *w.stats().lock().unwrap());
            assert_eq!(got, want, "statistics after join differ from the sequential result (with a concurrent monitor)");
        });
    }));
    let n = EXECS.load(Ordering::SeqCst);
    match r {
        Ok(()) => (n, Ok(())),
        Err(p) => {
            let m = if let Some(s) = p.downcast_ref::<String>() { s.clone() } else if let Some(s) = p.downcast_ref::<&str>() { s.to_string() } else { "panic".into() };
            (n, Err(format!("2 writers x 2 writes + monitor: {}", m.chars().take(600).collect::<String>())))
        }
    }
}

fn main() {
    let thorough = std::env::args().any(|a| a == "thorough");
    std::panic::set_hook(Box::new(|_| {}));
    let mut models: Vec<(&str, Vec<Vec<(bool, u64)>>, Option<usize>)> = vec![
        ("2 threads x 1 write (unbounded)", vec![vec![(true, 5)], vec![(true, 1000)]], None),
        ("2 threads x 2 writes (bound 3)", vec![vec![(true, 0), (true, 63)], vec![(true, 64), (true, 1 << 20)]], Some(3)),
        ("2 threads: write+read / read+write (bound 3)", vec![vec![(true, 7), (false, 1023)], vec![(false, 1024), (true, 3)]], Some(3)),
        ("3 threads x 1 op (bound 3)", vec![vec![(true, 1)], vec![(false, 70000)], vec![(true, 2)]], Some(3)),
    ];
    if thorough {
        models.push(("3 threads x 2 ops (bound 3)", vec![vec![(true, 1), (false, 9)], vec![(false, 70000), (true, 0)], vec![(true, 2), (true, 99)]], Some(3)));
        models.push(("2 threads x 3 writes (unbounded)", vec![vec![(true, 0), (true, 63), (true, 5)], vec![(true, 64), (true, 1 << 20), (true, 6)]], None));
        models.push(("2 threads x 3 writes (bound 3)", vec![vec![(true, 0), (true, 63), (true, 5)], vec![(true, 64), (true, 1 << 20), (true, 6)]], Some(3)));
        models.push(("2 threads x 2 writes (unbounded)", vec![vec![(true, 0), (true, 63)], vec![(true, 64), (true, 1 << 20)]], None));
    }
    let mut total = 0usize;
    let mut out = String::from("{\"models\":[");
    let mut viol: Vec<String> = vec![];
    for (i, (name, th, bound)) in models.into_iter().enumerate() {
        let (n, r) = run_model(name, th, bound);
        total += n;
        if i > 0 {
            out.push(',');
        }
        out.push_str(&format!("{{\"name\":\"{}\",\"executions\":{},\"ok\":{}}}", name, n, r.is_ok()));
        if let Err(e) = r {
            viol.push(e.replace('\\', "/").replace('"', "'").replace('\n', " "));
        }
    }
    {
        let (n, r) = run_monitor_model(Some(if thorough { 3 } else { 2 }));
        total += n;
        out.push_str(&format!(",{{\"name\":\"2 writers x 2 writes + monitor reading stats() (bound {})\",\"executions\":{},\"ok\":{}}}", if thorough { 3 } else { 2 }, n, r.is_ok()));
        if let Err(e) = r {
            viol.push(e.replace('\\', "/").replace('"', "'").replace('\n', " "));
        }
    }
    out.push_str(&format!("],\"executions\":{},\"violations\":[", total));
    for (i, v) in viol.iter().enumerate() {
        if i > 0 {
            out.push(',');
        }
        out.push_str(&format!("\"{}\"", v));
    }
    out.push_str("]}");
    println!("{}", out);
}
