#!/bin/bash
# Demonstrates detection: applies each property-breaking patch (mutants/*.diff and seeded/*/patch.diff)
# to /repo's working tree, optionally confirms that the repository's own tests still pass,
# runs the targeted property's quick check, expects exit 1, and reverts.  /repo is restored whatever happens.
# usage: selftest.sh [--tests] [pattern...]      results: /verif/selftest.log
cd /verif || exit 3
TESTS=0; pats=()
for a in "$@"; do [ "$a" = --tests ] && TESTS=1 || pats+=("$a"); done
restore() { git -C /repo checkout -- . 2>/dev/null; }
trap restore EXIT INT TERM
if [ -n "$(git -C /repo status --porcelain --untracked-files=no)" ]; then echo "refusing: /repo has uncommitted changes"; exit 3; fi
files=()
for f in mutants/*.diff seeded/*/patch.diff; do
  [ -f "$f" ] || continue
  if [ ${#pats[@]} -eq 0 ]; then files+=("$f"); else for p in "${pats[@]}"; do [[ "$f" == *$p* ]] && files+=("$f"); done; fi
done
pass=0; fail=0
for f in "${files[@]}"; do
  prop=$(grep -m1 -o 'property: C[0-9][0-9]' "$f" | cut -d' ' -f2)
  [ -z "$prop" ] && prop=$(python3 -c "import json,sys,os; print(json.load(open(os.path.join(os.path.dirname('$f'),'meta.json')))['property'])" 2>/dev/null)
  if ! git -C /repo apply "/verif/$f" 2>/tmp/selftest.apply.err; then echo "SKIP $f: patch does not apply: $(head -1 /tmp/selftest.apply.err)" | tee -a selftest.log; continue; fi
  tests="not-run"
  if [ $TESTS = 1 ]; then
    if (cd /repo && CARGO_NET_OFFLINE=true cargo test --workspace --no-fail-fast --offline >/tmp/selftest.tests.log 2>&1); then tests="pass"; else tests="FAIL($(grep -c 'FAILED\|failed' /tmp/selftest.tests.log))"; fi
  fi
  s=$(date +%s)
  ./check "$prop" quick > /tmp/selftest.check.log 2>&1; rc=$?
  e=$(date +%s)
  first=$(grep -A1 -m1 '^VIOLATION' /tmp/selftest.check.log | tail -1 | cut -c1-220)
  if [ $rc = 1 ]; then verdict=DETECTED; pass=$((pass+1)); else verdict="MISSED(rc=$rc)"; fail=$((fail+1)); fi
  echo "$verdict $prop $f repo-tests=$tests $((e-s))s :: $first" | tee -a selftest.log
  restore
done
echo "selftest: $pass detected, $fail missed" | tee -a selftest.log
[ $fail = 0 ]
