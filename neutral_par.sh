#!/bin/bash
# False-alarm test: applies each behaviour-preserving patch (neutral/*.diff) to a scratch worktree of
# /repo HEAD, points a scratch copy of /verif at it, runs EVERY property's quick check and expects
# exit 0 everywhere. Any VIOLATION is a false alarm of the machinery (or the patch is not neutral).
# usage: neutral_par.sh [-j N] [pattern...]     results appended to /verif/neutral.log
cd /verif || exit 3
J=3; pats=()
while [ $# -gt 0 ]; do case "$1" in -j) J=$2; shift 2;; *) pats+=("$1"); shift;; esac; done
files=()
for f in neutral/*.diff; do
  [ -f "$f" ] || continue
  if [ ${#pats[@]} -eq 0 ]; then files+=("$f"); else for p in "${pats[@]}"; do [[ "$f" == *$p* ]] && { files+=("$f"); break; }; done; fi
done
one() {
  f=$1; k=$2
  root=/tmp/nt-$k; rm -rf $root; mkdir -p $root
  git -C /repo worktree add -q --detach $root/repo HEAD || { echo "SKIP $f: cannot create worktree"; return; }
  cp /repo/Cargo.lock $root/repo/ 2>/dev/null
  if ! git -C $root/repo apply "/verif/$f" 2>$root/apply.err; then echo "SKIP $f: patch does not apply: $(head -1 $root/apply.err)"; git -C /repo worktree remove --force $root/repo; rm -rf $root; return; fi
  rsync -a --exclude 'target*' --exclude replays --exclude .git --exclude seeded --exclude mutants --exclude neutral /verif/ $root/verif/
  sed -i "s|path = \"/repo\"|path = \"$root/repo\"|" $root/verif/harness/Cargo.toml $root/verif/harness-loom/Cargo.toml
  s=$(date +%s)
  res=""
  bad=0
  (cd $root/verif && VERIF_ROOT=$root/verif REPO_ROOT=$root/repo ./check setup > $root/setup.log 2>&1) || { echo "SETUP-FAILED $f :: $(tail -2 $root/setup.log | tr '\n' ' ' | cut -c1-200)"; git -C /repo worktree remove --force $root/repo; rm -rf $root; return; }
  for p in C01 C02 C03 C04 C05 C06 C07 C08 C09 C10 C11 C12 C13 C14 C15 C16 C17 C18 C19 C20; do
    (cd $root/verif && VERIF_ROOT=$root/verif REPO_ROOT=$root/repo VERIF_THREADS=${NEUTRAL_THREADS:-6} ./check $p quick > $root/check_$p.log 2>&1); rc=$?
    if [ $rc != 0 ]; then
      bad=$((bad+1))
      first=$(grep -A1 -m1 '^VIOLATION\|MACHINERY' $root/check_$p.log | tail -1 | cut -c1-220)
      res="$res [$p rc=$rc: $first]"
    fi
  done
  e=$(date +%s)
  if [ $bad = 0 ]; then echo "QUIET $f all 20 checks exit 0 ($((e-s))s)"; else echo "ALARM $f ($((e-s))s) ::$res"; fi
  git -C /repo worktree remove --force $root/repo; rm -rf $root
}
k=0
for f in "${files[@]}"; do
  k=$((k+1))
  while [ $(jobs -r | wc -l) -ge $J ]; do sleep 2; done
  one "$f" $k >> /verif/neutral.log &
done
wait
